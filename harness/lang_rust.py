"""Rust language plug-in (harness/PROTOCOL.md section 5).

* runtime: /verif/runtimes/rust/binary_codec (crate `binary_codec`), built ONCE together with `bytes` and
  `byteorder` into rlibs under /verif/.work/rt/rust/<key>/ by `setup()` (cargo build --offline), plus the fixed
  part of the driver (runtimes/rust/driver/prelude.rs, crate `verifdrv`) as an rlib next to them;
* per program everything happens inside `scratch` with direct `rustc` calls against those rlibs
  (no cargo, no shared target directory, no lock):
    1. emitted files -> `libmsg.rlib`          (build.ok: emitted non-test code + runtime only, C07)
    2. GENERATED driver.rs -> `driver` binary  (links libmsg.rlib + libverifdrv.rlib)
    3. `driver case.txt [--skip k]`            (one event per op; a dead process = one `crash` event)
  self-tests: `rustc --test lib.rs` + run the test binary.

Rust has no reflection, so the driver is generated from the emitted *declarations*: `pub struct X { pub a: T, .. }`
and `pub enum E { A(A), .. }` are parsed out of the emitted files; types are found by normalised name, members
are taken positionally (declaration order), the member's native type decides the conversion.  The emitter's
case conversions are never re-implemented."""
import fcntl
import json
import os
import re
import shutil
import threading
import time

from common import RUNTIMES, WORK, Infra, run, sha, tree_hash, write, read
from langs import Lang, parse_events, runtime_hash

RT_SRC = os.path.join(RUNTIMES, "rust")
PRELUDE = os.path.join(RT_SRC, "driver", "prelude.rs")
W = {"u8": 1, "i8": 1, "char": 1, "u16": 2, "i16": 2, "u32": 4, "i32": 4, "f32": 4, "u64": 8, "i64": 8, "f64": 8}
NATIVE_INTS = {"u8", "u16", "u32", "u64", "u128", "usize", "i8", "i16", "i32", "i64", "i128", "isize"}
NATIVE_FLOATS = {"f32", "f64"}
NATIVE_CHARS = {"char", "u8", "i8"}
RUSTC_FLAGS = ["--edition", "2021", "-A", "warnings", "-C", "debuginfo=0", "-C", "opt-level=0"]


def normname(s):
    return s.replace("_", "").lower()


# ------------------------------------------------------------------------------------------------
# reading declarations out of emitted Rust source

def strip_rust(text):
    """Blank out comments and the contents of string / char literals (same length, newlines kept)."""
    out = []
    i, n = 0, len(text)

    def blank(s):
        return "".join(c if c == "\n" else " " for c in s)
    while i < n:
        c = text[i]
        if text.startswith("//", i):
            j = text.find("\n", i)
            j = n if j < 0 else j
            out.append(blank(text[i:j]))
            i = j
        elif text.startswith("/*", i):
            depth, j = 1, i + 2
            while j < n and depth:
                if text.startswith("/*", j):
                    depth += 1
                    j += 2
                elif text.startswith("*/", j):
                    depth -= 1
                    j += 2
                else:
                    j += 1
            out.append(blank(text[i:j]))
            i = j
        elif c == '"' or (c == "r" and re.match(r'r#*"', text[i:i + 12]) and not (i and (text[i - 1].isalnum() or text[i - 1] == "_"))):
            if c == "r":
                m = re.match(r'r(#*)"', text[i:])
                close = '"' + m.group(1)
                j = text.find(close, i + len(m.group(0)))
                j = n if j < 0 else j + len(close)
            else:
                j = i + 1
                while j < n and text[j] != '"':
                    j += 2 if text[j] == "\\" else 1
                j = min(n, j + 1)
            out.append('"' + blank(text[i + 1:j - 1]) + '"' if j - i >= 2 else blank(text[i:j]))
            i = j
        elif c == "'":
            if i + 1 < n and text[i + 1] == "\\":
                j = text.find("'", i + 3)
                j = n if j < 0 else j + 1
                out.append(blank(text[i:j]))
                i = j
            elif i + 2 < n and text[i + 2] == "'":
                out.append("   ")
                i += 3
            else:           # lifetime
                out.append(c)
                i += 1
        else:
            out.append(c)
            i += 1
    return "".join(out)


def _match_close(s, i, op="{", cl="}"):
    """s[i] == op -> index of the matching closer (or -1)."""
    depth = 0
    for j in range(i, len(s)):
        if s[j] == op:
            depth += 1
        elif s[j] == cl:
            depth -= 1
            if depth == 0:
                return j
    return -1


def _split_top(s):
    parts, depth, cur = [], 0, []
    for c in s:
        if c in "<([{":
            depth += 1
        elif c in ">)]}":
            depth -= 1
        if c == "," and depth == 0:
            parts.append("".join(cur))
            cur = []
        else:
            cur.append(c)
    parts.append("".join(cur))
    return [p.strip() for p in parts if p.strip()]


def _strip_attrs(s):
    s = s.strip()
    while s.startswith("#"):
        k = s.find("[")
        if k < 0:
            break
        e = _match_close(s, k, "[", "]")
        if e < 0:
            break
        s = s[e + 1:].strip()
    return s


_DECL = re.compile(r"\bpub(?:\s*\([^)]*\))?\s+(struct|enum)\s+(\w+)\s*([{;(<])")
_MEMBER = re.compile(r"^(?:pub(?:\s*\([^)]*\))?\s+)?((?:r#)?\w+)\s*:\s*(.+)$", re.S)
_VARIANT = re.compile(r"^(\w+)\s*\(\s*(.+?)\s*,?\s*\)$", re.S)


def parse_decls(text):
    """-> (structs {name: [(member, type)]} , enums {name: [(variant, payload type | None)]}), declaration
    order kept, top-level items of the file only."""
    s = strip_rust(text)
    structs, enums = {}, {}
    for m in _DECL.finditer(s):
        before = s[:m.start()]
        if before.count("{") != before.count("}"):
            continue            # nested in a module / function body (e.g. #[cfg(test)] mod)
        kind, name, opener = m.group(1), m.group(2), m.group(3)
        if opener == ";":
            if kind == "struct":
                structs.setdefault(name, [])
            continue
        if opener != "{":
            continue            # tuple / generic declarations are not emitted; not understood here
        start = m.end() - 1
        end = _match_close(s, start)
        if end < 0:
            continue
        body = s[start + 1:end]
        items = [_strip_attrs(p) for p in _split_top(body)]
        if kind == "struct":
            mem = []
            for it in items:
                mm = _MEMBER.match(it)
                if mm:
                    mem.append((mm.group(1), re.sub(r"\s+", "", mm.group(2))))
                else:
                    mem.append((None, it))
            structs.setdefault(name, mem)
        else:
            vs = []
            for it in items:
                vm = _VARIANT.match(it)
                if vm and "," not in vm.group(2):
                    vs.append((vm.group(1), re.sub(r"\s+", "", vm.group(2))))
                else:
                    vs.append((re.match(r"\w+", it).group(0) if re.match(r"\w+", it) else it, None))
            enums.setdefault(name, vs)
    return structs, enums


def parse_lib(srcdir):
    """Public modules of lib.rs and the declarations of each.  -> {mod: (structs, enums)} (sorted by mod)"""
    lib = os.path.join(srcdir, "lib.rs")
    mods = []
    if os.path.exists(lib):
        s = strip_rust(read(lib))
        for m in re.finditer(r"(?m)^\s*pub\s+mod\s+((?:r#)?\w+)\s*;", s):
            mods.append(m.group(1))
    out = {}
    for mod in sorted(set(mods)):
        p = os.path.join(srcdir, mod.replace("r#", "") + ".rs")
        if os.path.exists(p):
            out[mod] = parse_decls(read(p))
    return out


# ------------------------------------------------------------------------------------------------
# driver generation

def rs_str(s):
    """Rust string literal."""
    o = []
    for ch in s:
        if ch == '"' or ch == "\\":
            o.append("\\" + ch)
        elif ch == "\n":
            o.append("\\n")
        elif ord(ch) < 0x20 or ord(ch) == 0x7f:
            o.append("\\u{%x}" % ord(ch))
        else:
            o.append(ch)
    return '"' + "".join(o) + '"'


def last_seg(ty):
    """`crate::sub::Sub` -> `Sub` (generic arguments kept out of scope)."""
    return ty.split("::")[-1] if "<" not in ty else ty


def vec_elem(ty):
    m = re.match(r"^(?:(?:::)?(?:std|alloc)::vec::)?Vec<(.+)>$", ty)
    return m.group(1) if m else None


class DriverGen:
    """Generates build_<k> / read_<k> for every emitted struct a declared packet / inline object maps to."""

    def __init__(self, prog, mods):
        self.prog = prog
        self.mods = mods
        self.shapes = {}     # key -> dict(k=index, label, fields, mod, struct, members) ; struct None = no emitted type
        self.order = []
        self.code = []

    # --- program helpers ---------------------------------------------------------------------
    def pkt(self, name):
        for p in self.prog["pkts"]:
            if p["name"] == name:
                return p
        return None

    def res(self, f):
        if f["k"] != "meta":
            return f
        e = next((x for x in self.prog["metas"] if x["name"] == f["ty"]), None)
        if e is not None and e.get("ref"):
            e = next((x for x in self.prog["metas"] if x["name"] == e["ref"]), e)
        g = dict(f)
        if e is not None:
            g.update(k=e["k"], ty=e["ty"], n=e["n"])
        return g

    # --- emitted types -----------------------------------------------------------------------
    def find_struct(self, name, prefer=None):
        nn = normname(name)
        hits = [(mod, sn) for mod, (structs, _) in self.mods.items() for sn in structs if normname(sn) == nn]
        if not hits:
            return None
        for h in hits:
            if h[0] == prefer:
                return h
        return hits[0]

    def find_enum(self, tyname, prefer=None):
        hits = [(mod, en) for mod, (_, enums) in self.mods.items() for en in enums if en == tyname]
        if not hits:
            return None
        for h in hits:
            if h[0] == prefer:
                return h
        return hits[0]

    def shape(self, key, label, fields, prefer=None):
        if key in self.shapes:
            return self.shapes[key]
        hit = self.find_struct(label, prefer)
        sh = {"k": len(self.order), "label": label, "fields": fields, "mod": None, "struct": None, "members": None}
        if hit:
            sh.update(mod=hit[0], struct=hit[1], members=self.mods[hit[0]][0][hit[1]])
        self.shapes[key] = sh
        self.order.append(key)
        return sh

    def pkt_shape(self, name, prefer=None):
        p = self.pkt(name)
        if p is None:
            return None
        if prefer is None:      # the module (file) of the same normalised name, if there is one
            prefer = next((m for m in self.mods if normname(m.replace("r#", "")) == normname(name)), None)
        return self.shape(("pkt", name), name, p["fields"], prefer)

    @staticmethod
    def path(sh):
        return "msg::%s::%s" % (sh["mod"], sh["struct"])

    # --- conversions -------------------------------------------------------------------------
    def conv(self, sh, key, f, native):
        """-> (build(tree_ref_expr) -> rust expr of the native type (may use `?` / `return Err`),
               read(native_ref_expr) -> rust expr of type V (may use `?`))   for ONE element (not the Vec)."""
        k = f["k"]
        what = "%s.%s" % (sh["label"], f["name"])

        def cannot(why):
            msg = "%s: %s (native type `%s`)" % (what, why, native)
            return (lambda t: "return Err(E::Build(%s.to_string()))" % rs_str(msg),
                    lambda x: "V::X(%s.to_string())" % rs_str("unsupported native type " + native))

        def nomember(why):
            msg = "%s: %s" % (what, why)
            return (lambda t: "return Err(E::Missing(%s.to_string()))" % rs_str(msg),
                    lambda x: "return Err(E::Missing(%s.to_string()))" % rs_str(msg))
        if k in ("int", "len", "ck"):
            if native not in NATIVE_INTS:
                return cannot("declared %s, native type is not an integer" % f["ty"])
            w, sg = W[f["ty"]], "true" if f["ty"].startswith("i") else "false"
            return (lambda t: "b_int::<%s>(%s, %d, %s)?" % (native, t, w, sg),
                    lambda x: "r_int::<%s>(%s, %d, %s)" % (native, x, w, sg))
        if k == "float":
            if native not in NATIVE_FLOATS:
                return cannot("declared %s, native type is not a float" % f["ty"])
            w = W[f["ty"]]
            return (lambda t: "b_float::<%s>(%s, %d)?" % (native, t, w),
                    lambda x: "r_float::<%s>(%s, %d)" % (native, x, w))
        if k == "char":
            if native not in NATIVE_CHARS:
                return cannot("declared char, native type is not char/u8/i8")
            return (lambda t: "b_char::<%s>(%s)?" % (native, t),
                    lambda x: "r_char::<%s>(%s)" % (native, x))
        if k in ("fix", "dyn"):
            if last_seg(native) != "String":
                return cannot("declared string, native type is not String")
            return (lambda t: "b_str(%s)?" % t, lambda x: "r_str(%s)" % x)
        if k in ("obj", "inl"):
            if k == "obj":
                sub = self.pkt_shape(f["ty"])
                if sub is None:
                    return nomember("declared packet %s is not in the program" % f["ty"])
            else:
                sub = self.shape(key + ("inl", f["name"]), f["name"], f["fs"], sh["mod"])
            if sub["struct"] is None:
                return nomember("no emitted type for %s" % sub["label"])
            if last_seg(native) != sub["struct"]:
                return cannot("emitted type for %s is `%s`" % (sub["label"], sub["struct"]))
            kk = sub["k"]
            return (lambda t: "build_%d(as_obj(%s)?)?" % (kk, t),
                    lambda x: "V::O(read_%d(%s)?)" % (kk, x))
        if k == "match":
            hit = self.find_enum(last_seg(native), sh["mod"])
            if hit is None:
                return cannot("no emitted enum of that name for the match field")
            emod, ename = hit
            epath = "msg::%s::%s" % (emod, ename)
            arms_b, arms_r = [], []
            seen = set()
            for vname, pty in self.mods[emod][1][ename]:
                target = None
                if pty is not None:
                    nn = normname(last_seg(pty))
                    p = next((q for q in self.prog["pkts"] if normname(q["name"]) == nn), None)
                    if p is not None:
                        sub = self.pkt_shape(p["name"])
                        if sub["struct"] is not None and sub["struct"] == last_seg(pty):
                            target = (p["name"], sub["k"])
                if target is None:
                    arms_r.append("%s::%s { .. } => V::X(%s.to_string())," % (epath, vname, rs_str("variant " + vname)))
                    continue
                pname, kk = target
                arms_r.append("%s::%s(p) => V::M(%s.to_string(), read_%d(p)?)," % (epath, vname, rs_str(pname), kk))
                if pname not in seen:
                    seen.add(pname)
                    arms_b.append("%s => %s::%s(build_%d(mf)?)," % (rs_str(pname), epath, vname, kk))

            def build(t, arms_b=arms_b):
                return ("{ let (mp, mf) = as_match(%s)?; match mp { %s other => return Err(E::Build(format!(\"{}: enum `{}` has no variant "
                        "for packet {}\", %s, %s, other))), } }" % (t, " ".join(arms_b), rs_str(what), rs_str(ename)))

            def rd(x, arms_r=arms_r):
                return "match %s { %s _ => V::X(\"unknown variant\".to_string()), }" % (x, " ".join(arms_r))
            return build, rd
        return cannot("field kind %s not understood" % k)

    def gen_shape(self, key):
        sh = self.shapes[key]
        if sh["struct"] is None:
            return
        k, path, fields, members = sh["k"], self.path(sh), sh["fields"], sh["members"]
        if len(members) != len(fields) or any(m[0] is None for m in members):
            msg = "struct %s has %d members for %d declared fields of %s" % (sh["struct"], len(members), len(fields), sh["label"])
            self.code.append("fn build_%d(_v: &[V]) -> Result<%s, E> { Err(E::Missing(%s.to_string())) }" % (k, path, rs_str(msg)))
            self.code.append("fn read_%d(_x: &%s) -> Result<Vec<V>, E> { Err(E::Missing(%s.to_string())) }" % (k, path, rs_str(msg)))
            return
        b_lines, r_lines = [], []
        for i, ((mname, mty), f0) in enumerate(zip(members, fields)):
            f = self.res(f0)
            if f["rep"]:
                el = vec_elem(mty)
                if el is None:
                    msg = "%s.%s: repeated field, native type `%s` is not a Vec" % (sh["label"], f["name"], mty)
                    b_lines.append("    let m%d = { return Err(E::Build(%s.to_string())); };" % (i, rs_str(msg)))
                    r_lines.append("    out.push(V::X(%s.to_string()));" % rs_str("unsupported native type " + mty))
                    continue
                bf, rf = self.conv(sh, key, f, el)
                b_lines.append("    let m%d = { let mut l = Vec::new(); for e in as_list(&v[%d])?.iter() { l.push(%s); } l };" % (i, i, bf("e")))
                r_lines.append("    out.push(V::L({ let mut l = Vec::new(); for e in x.%s.iter() { l.push(%s); } l }));" % (mname, rf("e")))
            else:
                bf, rf = self.conv(sh, key, f, mty)
                b_lines.append("    let m%d = %s;" % (i, bf("&v[%d]" % i)))
                r_lines.append("    out.push(%s);" % rf("&x.%s" % mname))
        self.code.append("fn build_%d(v: &[V]) -> Result<%s, E> {" % (k, path))
        self.code.append("    arity(v, %d, %s)?;" % (len(fields), rs_str(sh["label"])))
        self.code += b_lines
        self.code.append("    Ok(%s { %s })" % (path, ", ".join("%s: m%d" % (m[0], i) for i, m in enumerate(members))))
        self.code.append("}")
        self.code.append("fn read_%d(x: &%s) -> Result<Vec<V>, E> {" % (k, path))
        self.code.append("    let mut out: Vec<V> = Vec::new();")
        self.code += r_lines
        self.code.append("    Ok(out)")
        self.code.append("}")

    def generate(self):
        for p in self.prog["pkts"]:
            self.pkt_shape(p["name"])
        done = 0
        while done < len(self.order):       # gen_shape may discover inline shapes
            self.gen_shape(self.order[done])
            done += 1
        arms = []
        for p in self.prog["pkts"]:
            sh = self.shapes[("pkt", p["name"])]
            if sh["struct"] is None:
                arms.append("        %s => missing(op, %s)," % (rs_str(p["name"]), rs_str("no emitted type for packet " + p["name"])))
            else:
                arms.append("        %s => run_op::<%s>(op, &build_%d, &read_%d, &|x, b| x.encode(b), &|b| %s::decode(b)),"
                            % (rs_str(p["name"]), self.path(sh), sh["k"], sh["k"], self.path(sh)))
        out = ["// GENERATED by harness/lang_rust.py for one program; the fixed part is runtimes/rust/driver/prelude.rs",
               "#![allow(dead_code, unused_variables, unused_mut, unused_imports, unreachable_code, unreachable_patterns, non_snake_case)]",
               "use binary_codec::BinaryCodec;", "use verifdrv::*;", "", "fn main() {", "    run_main(dispatch);", "}", ""] + self.code
        out += ["", "fn dispatch(op: &Op) -> String {", "    match op.pkt.as_str() {"] + arms
        out += ["        _ => missing(op, \"packet is not declared in the program\"),", "    }", "}", ""]
        return "\n".join(out)


# ------------------------------------------------------------------------------------------------
# case file (token format read by prelude.rs)

def _hex(s):
    return "h" + s.encode("utf-8").hex()


def _tree(v, out):
    t = v.get("t")
    if t == "b":
        out.append("b %d" % len(v["b"]))
        out.extend(str(int(x) & 255) for x in v["b"])
    elif t in ("l", "o"):
        xs = v["xs"] if t == "l" else v["fs"]
        out.append("%s %d" % (t, len(xs)))
        for x in xs:
            _tree(x, out)
    elif t == "m":
        out.append("m %s %d" % (_hex(v["pkt"]), len(v["fs"])))
        for x in v["fs"]:
            _tree(x, out)
    elif t == "n":
        out.append("n")
    else:
        out.append("x")


def case_text(case):
    lines = []
    for op in case["ops"]:
        out = [op["op"] if op["op"] in ("enc", "encinto", "dec", "deckey") else "deckey", _hex(str(op["id"])), _hex(op["pkt"])]
        if op["op"] == "enc":
            _tree(op["val"], out)
        elif op["op"] == "encinto":     # <p> <byte>*p <rd> <tree>
            pre = op.get("pre") or []
            out.append(str(len(pre)))
            out.extend(str(int(x) & 255) for x in pre)
            out.append(str(int(op.get("rd") or 0)))
            _tree(op["val"], out)
        else:
            for key in ("bytes", "tail"):
                bs = op.get(key) or []
                out.append(str(len(bs)))
                out.extend(str(int(x) & 255) for x in bs)
        lines.append(" ".join(out))
    return "\n".join(lines) + "\n"


# ------------------------------------------------------------------------------------------------

class Rust(Lang):
    name = "rust"
    _tc = None
    _rt = None
    _lock = threading.Lock()

    def toolchain(self):
        if Rust._tc is None:
            r = run(["rustc", "--version"], timeout=60)
            v = r.stdout.strip() if r.returncode == 0 else "rustc unavailable"
            # the plug-in generates the driver, so its own text is part of the memo key
            Rust._tc = "%s plugin:%s" % (v, sha(read(os.path.abspath(__file__).replace(".pyc", ".py")))[:12])
        return Rust._tc

    # --- one-time build of bytes / byteorder / binary_codec ----------------------------------------
    def setup(self):
        with Rust._lock:
            if Rust._rt is not None:
                return Rust._rt
            key = sha(runtime_hash("rust") + "|" + self.toolchain().split(" plugin:")[0])[:20]
            root = os.path.join(WORK, "rt", "rust", key)
            meta = os.path.join(root, "rt.json")
            rt = self._load_rt(meta)
            if rt is None:
                os.makedirs(root, exist_ok=True)
                with open(os.path.join(root, ".lock"), "w") as lf:
                    fcntl.flock(lf, fcntl.LOCK_EX)
                    rt = self._load_rt(meta)
                    if rt is None:
                        rt = self._build_rt(root, meta)
            Rust._rt = rt
            return rt

    @staticmethod
    def _load_rt(meta):
        try:
            rt = json.load(open(meta))
        except (OSError, ValueError):
            return None
        if all(os.path.exists(rt.get(k, "")) for k in ("bytes", "byteorder", "binary_codec", "verifdrv")):
            return rt
        return None

    @staticmethod
    def _build_rt(root, meta):
        crate = os.path.join(root, "binary_codec")
        shutil.rmtree(crate, ignore_errors=True)
        shutil.rmtree(os.path.join(root, "target"), ignore_errors=True)
        shutil.copytree(os.path.join(RT_SRC, "binary_codec"), crate, ignore=shutil.ignore_patterns("target"))
        env = dict(os.environ)
        env["CARGO_TARGET_DIR"] = os.path.join(root, "target")
        env.pop("RUSTFLAGS", None)
        r = run(["cargo", "build", "--offline", "--lib"], cwd=crate, env=env, timeout=900)
        if r.returncode != 0:
            raise Infra("rust runtime does not build:\n" + (r.stdout + r.stderr)[-3000:])
        deps = os.path.join(root, "target", "debug", "deps")
        rt = {"deps": deps}
        for name in ("bytes", "byteorder", "binary_codec"):
            hits = sorted((os.path.getmtime(os.path.join(deps, f)), os.path.join(deps, f)) for f in os.listdir(deps)
                          if re.match(r"lib%s-[0-9a-f]+\.rlib$" % name, f))
            if not hits:
                raise Infra("rust runtime build produced no lib%s-*.rlib in %s" % (name, deps))
            rt[name] = hits[-1][1]
        # the fixed part of the driver, as a library
        cmd = ["rustc"] + RUSTC_FLAGS + ["-L", "dependency=" + deps]
        for name in ("bytes", "byteorder", "binary_codec"):
            cmd += ["--extern", "%s=%s" % (name, rt[name])]
        r = run(cmd + ["--crate-type", "rlib", "--crate-name", "verifdrv", "--out-dir", root, PRELUDE], cwd=root, env=env, timeout=600)
        rt["verifdrv"] = os.path.join(root, "libverifdrv.rlib")
        if r.returncode != 0 or not os.path.exists(rt["verifdrv"]):
            raise Infra("rust driver prelude does not build:\n" + r.stderr[-3000:])
        tmp = meta + ".tmp%d" % os.getpid()
        with open(tmp, "w") as f:
            json.dump(rt, f)
        os.replace(tmp, meta)
        # keep at most 3 older runtime builds
        parent = os.path.dirname(root)
        try:
            olds = sorted((os.path.getmtime(os.path.join(parent, x)), x) for x in os.listdir(parent) if x != os.path.basename(root))
            for _, x in olds[:-3]:
                shutil.rmtree(os.path.join(parent, x), ignore_errors=True)
        except OSError:
            pass
        return rt

    def _rustc(self, args, cwd):
        rt = self.setup()
        cmd = ["rustc"] + RUSTC_FLAGS + ["-L", "dependency=" + rt["deps"]]
        for name in ("bytes", "byteorder", "binary_codec"):
            cmd += ["--extern", "%s=%s" % (name, rt[name])]
        env = dict(os.environ)
        env.pop("RUSTFLAGS", None)
        env["TMPDIR"] = cwd
        return run(cmd + args, cwd=cwd, env=env, timeout=600)

    @staticmethod
    def _copy_emitted(outdir, dst):
        shutil.rmtree(dst, ignore_errors=True)
        os.makedirs(dst)
        files = [f for f in sorted(os.listdir(outdir)) if f.endswith(".rs")] if os.path.isdir(outdir) else []
        for f in files:
            shutil.copyfile(os.path.join(outdir, f), os.path.join(dst, f))
        return files

    # --- session -------------------------------------------------------------------------------------
    def _session(self, outdir, case, scratch):
        t0 = time.time()
        work = os.path.join(scratch, "rs_session")
        src = os.path.join(work, "src")
        files = self._copy_emitted(outdir, src)
        if "lib.rs" not in files:
            return {"build": {"ok": False, "log": "no lib.rs emitted (files: %s)" % files}, "events": [], "crash": None}
        r = self._rustc(["--crate-type", "rlib", "--crate-name", "msg", "--out-dir", work, os.path.join("src", "lib.rs")], work)
        rlib = os.path.join(work, "libmsg.rlib")
        if r.returncode != 0 or not os.path.exists(rlib):
            return {"build": {"ok": False, "log": ("timeout\n" if r.timed_out else "") + r.stderr[-3000:]}, "events": [], "crash": None}
        t1 = time.time()
        build = {"ok": True, "log": ""}
        gen = DriverGen(case["prog"], parse_lib(src))
        write(os.path.join(work, "driver.rs"), gen.generate())
        r = self._rustc(["--crate-type", "bin", "--crate-name", "driver", "--extern", "msg=" + rlib, "--extern", "verifdrv=" + self.setup()["verifdrv"], "-o", os.path.join(work, "driver"), "driver.rs"], work)
        if r.returncode != 0:
            # ours, not the emitter's: the declarations were not understood
            return {"build": build, "events": [], "crash": "driver does not build (plug-in problem): " + r.stderr[-1500:]}
        t2 = time.time()
        cf = os.path.join(work, "case.txt")
        write(cf, case_text(case))
        ops = case["ops"]
        events, crash, skip = [], None, 0
        env = dict(os.environ)
        env["RUST_BACKTRACE"] = "0"
        while skip < len(ops):
            r = run([os.path.join(work, "driver"), cf, "--skip", str(skip)], cwd=work, env=env, timeout=120)
            evs = parse_events(r.stdout)[:len(ops) - skip]
            events += evs
            done = skip + len(evs)
            if done >= len(ops):
                break
            op = ops[done]
            why = "driver died executing op %d (%s %s): %s %s" % (done, op["op"], op["id"], "timeout" if r.timed_out else "rc=%s" % r.returncode,
                                                             r.stderr.strip()[-300:])
            e = {"ev": op["op"], "id": op["id"], "ok": False, "cls": "crash", "err": why}
            if op["op"] == "encinto":
                e.update(pre=len(op.get("pre") or []), rd=int(op.get("rd") or 0))
            elif op["op"] != "enc":
                e["tail"] = len(op.get("tail") or [])
            events.append(e)
            crash = crash or why
            skip = done + 1
        t3 = time.time()
        return {"build": build, "events": events, "crash": crash,
                "time": {"lib": round(t1 - t0, 3), "driver": round(t2 - t1, 3), "run": round(t3 - t2, 3)}}

    # --- emitted self-tests -----------------------------------------------------------------------------
    def _selftest(self, outdir, scratch):
        work = os.path.join(scratch, "rs_selftest")
        src = os.path.join(work, "src")
        files = self._copy_emitted(outdir, src)
        if "lib.rs" not in files:
            return {"build_ok": False, "ran": 0, "passed": 0, "failed": 0, "log": "no lib.rs emitted (files: %s)" % files}
        r = self._rustc(["--test", "--crate-name", "msg", "-o", os.path.join(work, "tests"), os.path.join("src", "lib.rs")], work)
        if r.returncode != 0:
            return {"build_ok": False, "ran": 0, "passed": 0, "failed": 0, "log": ("timeout\n" if r.timed_out else "") + r.stderr[-1500:]}
        env = dict(os.environ)
        env["RUST_BACKTRACE"] = "0"
        r = run([os.path.join(work, "tests"), "--test-threads=1"], cwd=work, env=env, timeout=300)
        out = r.stdout
        res = re.findall(r"(?m)^test (\S+)(?: - should panic)? \.\.\. (ok|FAILED|ignored)", out)
        passed = sum(1 for _, s in res if s == "ok")
        failed = sum(1 for _, s in res if s == "FAILED")
        announced = re.search(r"running (\d+) tests?", out)
        total = int(announced.group(1)) if announced else len(res)
        ignored = sum(1 for _, s in res if s == "ignored")
        if passed + failed + ignored < total:       # the test process died in a test (abort / stack overflow)
            failed += 1
        log = ""
        if failed or r.returncode != 0:
            k = out.find("\nfailures:")
            log = ((out[k:k + 1200] if k >= 0 else out[-1000:]) + "\n" + r.stderr[-500:]).strip()
        return {"build_ok": True, "ran": passed + failed, "passed": passed, "failed": failed, "log": log[-1500:]}


PLUGIN = Rust()
