"""Hand-written abstract programs used to develop / smoke-test the language plug-ins
(`python3 harness/try_lang.py <lang>`).  The checks themselves draw programs from TLC (DslGen.tla)."""
from dsl import field as F

O = {"le": "", "sp": "", "ap": "", "padleft": "", "padchar": "", "pkgs": "set"}


def opts(**kw):
    o = dict(O)
    o.update(kw)
    return o


def prog(pid, fields, aux=(), metas=(), **o):
    return {"id": pid, "opts": opts(**o), "metas": list(metas),
            "pkts": [{"name": "Root", "root": True, "fields": fields}] + [dict(a) for a in aux]}


def pk(name, fields):
    return {"name": name, "root": False, "fields": fields}


A = pk("A", [F(k="int", name="x", ty="u8")])
B = pk("B", [F(k="int", name="y", ty="i64"), F(k="dyn", name="s")])
E = pk("Empty", [])
SUB = pk("Sub", [F(k="float", name="q", ty="f32"), F(k="int", name="w", ty="i32")])
T1 = [{"keys": [[0, 1]], "lits": ["1"], "pkt": "A"}, {"keys": [[0, 2], [0, 3]], "lits": ["2", "3"], "pkt": "B"},
      {"keys": [[0, 4]], "lits": ["4"], "pkt": "Empty"}]
TS = [{"keys": [[65, 66]], "lits": ['"AB"'], "pkt": "A"}, {"keys": [[67], [68, 69]], "lits": ['"C"', '"DE"'], "pkt": "B"}]

SAMPLES = [
    prog("scalars-be", [F(k="int", name=n, ty=t) for n, t in
                        [("a", "u8"), ("b", "u16"), ("c", "u32"), ("d", "u64"), ("e", "i8"), ("f", "i16"), ("g", "i32"), ("h", "i64")]]
         + [F(k="float", name="i", ty="f32"), F(k="float", name="j", ty="f64")]),
    prog("scalars-le", [F(k="int", name=n, ty=t) for n, t in
                        [("a", "u8"), ("b", "u16"), ("c", "u32"), ("d", "u64"), ("e", "i8"), ("f", "i16"), ("g", "i32"), ("h", "i64")]]
         + [F(k="float", name="i", ty="f32"), F(k="float", name="j", ty="f64")], le="true"),
    prog("strings", [F(k="dyn", name="s"), F(k="fix", name="f1", n=4), F(k="fix", name="f2", n=4, pad="l0"),
                     F(k="fix", name="f3", n=5, pad="z"), F(k="fix", name="f4", n=3, pad="rnul"), F(k="fix", name="f5", n=3, pad="lsp"),
                     F(k="fix", name="f6", n=6, pad="r0")], sp="u8"),
    prog("lists-le", [F(k="int", name="us", ty="u16", rep=True), F(k="int", name="ls", ty="i64", rep=True),
                      F(k="dyn", name="ss", rep=True), F(k="fix", name="fs", n=3, rep=True), F(k="fix", name="zs", n=4, pad="z", rep=True),
                      F(k="float", name="ds", ty="f64", rep=True)], le="true", sp="u32", ap="u8"),
    prog("objects", [F(k="obj", name="Sub", ty="Sub"), F(k="obj", name="Subs", ty="Sub", rep=True),
                     F(k="inl", name="Inner", fs=[F(k="int", name="p", ty="u16"), F(k="dyn", name="r")]),
                     F(k="int", name="z", ty="u8")], aux=[SUB]),
    prog("match-int", [F(k="int", name="MsgType", ty="u16"), F(k="int", name="pre", ty="u8"),
                       F(k="match", name="Body", key="MsgType", pairs=T1), F(k="int", name="post", ty="u16")], aux=[A, B, E]),
    prog("match-str", [F(k="dyn", name="Kind"), F(k="match", name="Body", key="Kind", pairs=TS)], aux=[A, B], le="true"),
    prog("lenof-ck", [F(k="int", name="MsgType", ty="u16"), F(k="len", name="BodyLen", ty="u32", tgt="Body"),
                      F(k="match", name="Body", key="MsgType", pairs=T1), F(k="ck", name="Ck", ty="u32", alg="VSUM32")], aux=[A, B, E]),
    prog("lenof-ck-le16", [F(k="int", name="MsgType", ty="u16"), F(k="len", name="BodyLen", ty="u16", tgt="Body"),
                           F(k="dyn", name="s"),
                           F(k="match", name="Body", key="MsgType", pairs=T1), F(k="ck", name="Ck", ty="u16", alg="VSUM16"),
                           F(k="int", name="after", ty="u8")], aux=[A, B, E], le="true"),
    prog("ck-none", [F(k="int", name="a", ty="u32"), F(k="ck", name="Ck", ty="u32", alg="NONE")]),
    prog("meta", [F(k="meta", name="Code", ty="Code"), F(k="meta", name="Code2", ty="Code"), F(k="meta", name="Qty", ty="Qty"),
                  F(k="meta", name="Txt", ty="Txt"), F(k="meta", name="Qs", ty="Qty", rep=True)],
         metas=[{"name": "Code", "k": "fix", "ty": "", "n": 6, "pad": "z", "ref": "", "doc": "code"},
                {"name": "Qty", "k": "int", "ty": "u32", "n": 0, "pad": "none", "ref": "", "doc": "qty"},
                {"name": "Txt", "k": "dyn", "ty": "", "n": 0, "pad": "none", "ref": "", "doc": "txt"}]),
    prog("cfgpad", [F(k="fix", name="a", n=4), F(k="fix", name="b", n=3, rep=True), F(k="fix", name="c", n=2, pad="rsp")],
         padleft="true", padchar="0"),
    prog("nested-name", [F(k="obj", name="One", ty="Sub"), F(k="int", name="msg_type", ty="u8"), F(k="int", name="ClOrdID", ty="u32")], aux=[SUB]),
]
