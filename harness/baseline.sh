#!/bin/sh
# Runs the repository's own test suite with the verif build tag OFF (the tag is reserved; no hook uses it).
GO=/root/go/pkg/mod/golang.org/toolchain@v0.0.1-go1.24.2.linux-amd64/bin/go
[ -x "$GO" ] || GO=$(command -v go1.26 || command -v go)
cd "${VERIF_REPO:-/repo}" || exit 2
GOFLAGS=-mod=mod GOPROXY=off GOTOOLCHAIN=local GOSUMDB=off exec "$GO" test -vet=off -count=1 -timeout 25m "$@" ./...
