#!/usr/bin/env python3
"""Entry point:  verif.py check <id> [--tier quick|thorough] | replay <path> | setup | sany"""
import argparse
import importlib
import json
import os
import sys
import traceback

sys.path.insert(0, os.path.dirname(os.path.abspath(__file__)))
from common import Infra, EVIDENCE, seed  # noqa: E402

CHECKS = {
    "C13": ("props_pipeline", "check_c13"),
    "C14": ("props_pipeline", "check_c14"),
    "C11": ("props_entry", "check_c11"),
    "C16": ("props_entry", "check_c16"),
    "C12": ("props_validate", "check_c12"),
    "C01": ("props_codec", "check_c01"),
    "C02": ("props_codec", "check_c02"),
    "C03": ("props_codec", "check_c03"),
    "C04": ("props_codec", "check_c04"),
    "C05": ("props_codec", "check_c05"),
    "C06": ("props_codec", "check_c06"),
    "C07": ("props_build", "check_c07"),
    "C15": ("props_build", "check_c15"),
    "C17": ("props_build", "check_c17"),
    "C08": ("props_respell", "check_c08"),
    "C09": ("props_format", "check_c09"),
    "C10": ("props_format", "check_c10"),
}


def _infra_evidence(pid, tier, msg):
    """An infrastructure failure must not leave a stale 'pass' behind."""
    os.makedirs(EVIDENCE, exist_ok=True)
    p = os.path.join(EVIDENCE, pid + ".json")
    try:
        if os.path.exists(p):
            os.unlink(p)
    except OSError:
        pass


def main():
    ap = argparse.ArgumentParser()
    sub = ap.add_subparsers(dest="cmd", required=True)
    c = sub.add_parser("check")
    c.add_argument("pid")
    c.add_argument("--tier", default=os.environ.get("VERIF_TIER", "quick"))
    acc = sub.add_parser("accept")
    acc.add_argument("pid")
    acc.add_argument("--tier", default="quick")
    r = sub.add_parser("replay")
    r.add_argument("path")
    sub.add_parser("setup")
    sub.add_parser("sany")
    a = ap.parse_args()
    if a.cmd == "accept":
        os.environ["VERIF_ACCEPT_KNOWN"] = "1"
        a.cmd = "check"
    if a.cmd == "check":
        if a.pid not in CHECKS:
            print("unknown property", a.pid)
            return 2
        mod, fn = CHECKS[a.pid]
        tier = a.tier if a.tier in ("quick", "thorough") else "quick"
        try:
            return getattr(importlib.import_module(mod), fn)(tier)
        except Infra as e:
            sys.stderr.write("INFRA property=%s: %s\n" % (a.pid, e))
            _infra_evidence(a.pid, tier, str(e))
            return 2
        except Exception:
            traceback.print_exc()
            sys.stderr.write("INFRA property=%s: harness exception\n" % a.pid)
            _infra_evidence(a.pid, tier, "exception")
            return 2
    if a.cmd == "replay":
        import replay
        return replay.main(a.path)
    if a.cmd == "setup":
        import setup
        return setup.main()
    if a.cmd == "sany":
        import setup
        return setup.sany()
    return 2


if __name__ == "__main__":
    sys.exit(main())
