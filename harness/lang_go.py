"""Go language plug-in (see PROTOCOL.md section 5).

Builds the Go code fin-protoc emitted against the reference runtime /verif/runtimes/go (module
github.com/xinchentechnote/fin-proto-go, package codec), runs the reflection driver
/verif/runtimes/go/_driver/main.go on a case, runs the emitted *_test.go with the real testify.

Scratch module layout (module example.com/msg, as the DSL options GoPackage/GoModule state):
    <scratch>/go_s/                  copies of the emitted non-test files          (package msg)
    <scratch>/go_s/zz_verif_registry.go   generated: []reflect.Type of every `type X struct` found
    <scratch>/go_s/zzverifdrv/main.go     copy of the driver                         (package main)
    <scratch>/go_p/                  same, with unused imports removed (only after a failed build)
    <scratch>/go_t/                  emitted files including *_test.go             (selftest, C17)

`build.ok` is the result of compiling the emitted non-test files + runtime only: a successful build of
the driver implies it (the registry only adds declarations); when the driver build fails with errors in
other files than the emitted ones, the emitted package is compiled on its own to decide."""
import fcntl
import json
import os
import re
import shutil

from common import REPO, RUNTIMES, WORK, go_env, run, sha, tree_hash, write, read
from langs import Lang, parse_events

RT = os.path.join(RUNTIMES, "go")
RTWORK = os.path.join(WORK, "rt", "go")
GOCACHE = os.path.join(RTWORK, "gocache")
MODULE = "example.com/msg"
RTMOD = "github.com/xinchentechnote/fin-proto-go"
REGISTRY = "zz_verif_registry.go"
DRVDIR = "zzverifdrv"
VERSION = "go-plugin-" + sha(read(os.path.abspath(__file__)))[:12]      # part of the memo key
SUM_MODS = ("github.com/stretchr/testify v1.11.1", "github.com/davecgh/go-spew v1.1.1",
            "github.com/pmezard/go-difflib v1.0.0", "gopkg.in/yaml.v3 v3.0.1")
DRIVER_TIMEOUT = 120
MAX_RESTARTS = 40

ERR_LINE = re.compile(r"^(?:\./)?([^\s:]+\.go):(\d+):(\d+): (.*)$")
UNUSED = re.compile(r'^"([^"]+)" imported (?:as \S+ )?and not used')
TYPE_DECL = re.compile(r"^[ \t]*type[ \t]+([A-Za-z_][A-Za-z0-9_]*)[ \t]+struct\b", re.M)
PKG_DECL = re.compile(r"^[ \t]*package[ \t]+([A-Za-z_][A-Za-z0-9_]*)", re.M)
TEST_IMPORT = re.compile(r'\bmsg[ \t]+"([^"\s]+)"')


def _gosum():
    lines = []
    try:
        for l in read(os.path.join(REPO, "go.sum")).splitlines():
            if any(l.startswith(m + " ") or l.startswith(m + "/go.mod ") for m in SUM_MODS):
                lines.append(l)
    except OSError:
        pass
    return "\n".join(lines) + "\n"


class Go(Lang):
    name = "go"

    def toolchain(self):
        return "%s %s" % (go_env()[2], VERSION)

    # ---------------------------------------------------------------------------------------
    def _env(self):
        go, env, _ = go_env()
        env = dict(env)
        env["GOCACHE"] = GOCACHE
        env["GOWORK"] = "off"
        # many programs are built at once (pmap over 16 cores): two threads per go tool process more than
        # halves the wall time under load and costs nothing for a single build (measured)
        env["GOMAXPROCS"] = os.environ.get("VERIF_GO_MAXPROCS", "2")
        return go, env

    def _gomod(self, module=MODULE, tests=False):
        s = "module %s\n\ngo 1.21\n\nrequire %s v0.0.0\n" % (module, RTMOD)
        if tests:
            s += ("require github.com/stretchr/testify v1.11.1\n"
                  "require (\n\tgithub.com/davecgh/go-spew v1.1.1 // indirect\n"
                  "\tgithub.com/pmezard/go-difflib v1.0.0 // indirect\n\tgopkg.in/yaml.v3 v3.0.1 // indirect\n)\n")
        s += "replace %s => %s\n" % (RTMOD, RT)
        return s

    def _build(self, moddir, target, out=None, timeout=600):
        """go build with every compile error of the emitted package listed (-e)."""
        go, env = self._env()
        cmd = [go, "build", "-trimpath", "-gcflags=%s=-e" % MODULE, "-ldflags=-s -w"]
        if out:
            cmd += ["-o", out]
        cmd.append(target)
        r = run(cmd, cwd=moddir, env=env, timeout=timeout)
        return r.returncode == 0 and not r.timed_out, (r.stdout + r.stderr)

    def setup(self):
        """Warm the shared GOCACHE (std, runtime, driver deps, testify) once per runtime/toolchain state."""
        os.makedirs(RTWORK, exist_ok=True)
        os.makedirs(GOCACHE, exist_ok=True)
        stamp = os.path.join(RTWORK, "warm-" + sha(tree_hash(RT) + self.toolchain())[:16])
        if os.path.exists(stamp):
            return
        with open(os.path.join(RTWORK, "setup.lock"), "w") as lf:
            fcntl.flock(lf, fcntl.LOCK_EX)
            if os.path.exists(stamp):
                return
            d = os.path.join(RTWORK, "warm.tmp%d" % os.getpid())
            shutil.rmtree(d, ignore_errors=True)
            try:
                src = ("package msg\n\nimport (\n\t\"bytes\"\n\t\"fmt\"\n\n\t\"%s/codec\"\n)\n\n"
                       "type Root struct {\n\tA uint8\n\tS string\n\tB codec.BinaryCodec\n}\n\n"
                       "func (p *Root) Encode(buf *bytes.Buffer) error {\n\tif err := codec.WriteBasicType(buf, p.A); err != nil {\n"
                       "\t\treturn fmt.Errorf(\"a: %%w\", err)\n\t}\n\treturn codec.WriteString[uint16](buf, p.S)\n}\n\n"
                       "func (p *Root) Decode(buf *bytes.Buffer) error {\n\tv, err := codec.ReadBasicType[uint8](buf)\n\tp.A = v\n\treturn err\n}\n") % RTMOD
                test = ("package msg_test\n\nimport (\n\t\"bytes\"\n\t\"testing\"\n\n\t\"github.com/stretchr/testify/assert\"\n"
                        "\tmsg \"%s\"\n)\n\nfunc TestRootCodec(t *testing.T) {\n\tvar buf bytes.Buffer\n"
                        "\tassert.NoError(t, (&msg.Root{A: 1}).Encode(&buf))\n\tassert.Equal(t, 3, buf.Len())\n}\n") % MODULE
                write(os.path.join(d, "s", "root.go"), src)
                self._prepare_driver(os.path.join(d, "s"))
                ok, log = self._build(os.path.join(d, "s"), "./" + DRVDIR, out=os.path.join(d, "drv"))
                if not ok:
                    raise RuntimeError("go plug-in setup: reference driver does not build:\n" + log[-3000:])
                write(os.path.join(d, "t", "root.go"), src)
                write(os.path.join(d, "t", "root_test.go"), test)
                write(os.path.join(d, "t", "go.mod"), self._gomod(tests=True))
                write(os.path.join(d, "t", "go.sum"), _gosum())
                go, env = self._env()
                r = run([go, "test", "-json", "-trimpath", "-gcflags=%s=-e" % MODULE, "-ldflags=-s -w", "./..."], cwd=os.path.join(d, "t"), env=env, timeout=900)
                if r.returncode != 0:
                    raise RuntimeError("go plug-in setup: testify smoke test failed:\n" + (r.stdout + r.stderr)[-3000:])
                write(stamp, "ok\n")
            finally:
                shutil.rmtree(d, ignore_errors=True)

    # ---------------------------------------------------------------------------------------
    def _emitted(self, outdir):
        if not os.path.isdir(outdir):
            return []
        return sorted(f for f in os.listdir(outdir) if f.endswith(".go") and os.path.isfile(os.path.join(outdir, f)))

    def _copy(self, outdir, moddir, tests):
        shutil.rmtree(moddir, ignore_errors=True)
        os.makedirs(moddir)
        names = []
        for f in self._emitted(outdir):
            if f.endswith("_test.go") and not tests:
                continue
            shutil.copyfile(os.path.join(outdir, f), os.path.join(moddir, f))
            names.append(f)
        return names

    def _prepare_driver(self, moddir):
        """go.mod + registry of the struct types + driver source next to the (copied) emitted files."""
        files = sorted(f for f in os.listdir(moddir) if f.endswith(".go") and not f.endswith("_test.go") and f != REGISTRY)
        types, pkg = [], None
        for f in files:
            text = read(os.path.join(moddir, f))
            if pkg is None:
                m = PKG_DECL.search(text)
                pkg = m.group(1) if m else None
            for t in TYPE_DECL.findall(text):
                if t not in types and t != "_":
                    types.append(t)
        types.sort()
        reg = ("// generated by the verification harness: the struct types of the emitted package\n"
               "package %s\n\nimport zzverifreflect \"reflect\"\n\n"
               "var ZZVerifTypes = []zzverifreflect.Type{\n%s}\n") % (
            pkg or "msg", "".join("\tzzverifreflect.TypeOf((*%s)(nil)).Elem(),\n" % t for t in types))
        write(os.path.join(moddir, REGISTRY), reg)
        write(os.path.join(moddir, "go.mod"), self._gomod())
        os.makedirs(os.path.join(moddir, DRVDIR), exist_ok=True)
        shutil.copyfile(os.path.join(RT, "_driver", "main.go"), os.path.join(moddir, DRVDIR, "main.go"))

    @staticmethod
    def _errors(log):
        """[(file, line, message)] of a go build log."""
        out = []
        for l in log.splitlines():
            m = ERR_LINE.match(l.strip())
            if m:
                out.append((m.group(1), int(m.group(2)), m.group(4)))
        return out

    def _build_session(self, moddir, emitted):
        """-> (driver path | None, emitted_ok, log)"""
        drv = os.path.join(moddir, "drv")
        ok, log = self._build(moddir, "./" + DRVDIR, out=drv)
        if ok:
            return drv, True, log
        errs = self._errors(log)
        if errs and all(f in emitted for f, _, _ in errs):
            return None, False, log        # the emitted files themselves do not compile
        # something else failed (registry, driver, link): compile the emitted package on its own to decide
        os.rename(os.path.join(moddir, REGISTRY), os.path.join(moddir, REGISTRY + ".off"))
        try:
            ok2, log2 = self._build(moddir, "./")
        finally:
            os.rename(os.path.join(moddir, REGISTRY + ".off"), os.path.join(moddir, REGISTRY))
        if not ok2:
            return None, False, log2
        return None, True, log

    def _patch_unused(self, moddir, log):
        """Delete the import lines the compiler reported as unused.  -> number of lines removed"""
        by_file = {}
        for f, line, msg in self._errors(log):
            m = UNUSED.match(msg)
            if m:
                by_file.setdefault(f, []).append((line, m.group(1)))
        n = 0
        for f, items in by_file.items():
            p = os.path.join(moddir, f)
            if os.path.dirname(f) or not os.path.isfile(p):
                continue
            lines = read(p).split("\n")
            for line, path in items:
                if 0 < line <= len(lines) and ('"%s"' % path) in lines[line - 1]:
                    lines[line - 1] = ""
                    n += 1
            write(p, "\n".join(lines))
        return n

    def _run_driver(self, drv, casefile, ops, cwd):
        events, crash, skip, restarts = [], None, 0, 0
        while skip < len(ops):
            r = run([drv, casefile, "--skip", str(skip)], cwd=cwd, timeout=DRIVER_TIMEOUT)
            evs = parse_events(r.stdout)[:len(ops) - skip]
            events += evs
            done = skip + len(evs)
            if done >= len(ops):
                break
            # the process died (or stopped) while executing op `done`
            why = "timeout after %ds" % DRIVER_TIMEOUT if r.timed_out else "driver exit %s" % r.returncode
            tail = [l for l in r.stderr.strip().splitlines() if l.strip()]
            head = next((l for l in tail if l.startswith(("panic:", "fatal error:", "runtime:", "SIG", "signal"))), tail[0] if tail else "")
            err = ("%s: %s" % (why, head))[:400]
            crash = crash or err
            restarts += 1
            rest = ops[done:done + 1] if restarts <= MAX_RESTARTS else ops[done:]
            for op in rest:
                ev = {"ev": op["op"], "id": op["id"], "ok": False, "cls": "crash", "err": err}
                if op["op"] == "encinto":
                    ev["pre"] = len(op.get("pre", []))
                    ev["rd"] = int(op.get("rd", 0))
                elif op["op"] != "enc":
                    ev["tail"] = len(op.get("tail", []))
                events.append(ev)
            skip = done + len(rest)
        return events, crash

    def _session(self, outdir, case, scratch):
        os.makedirs(scratch, exist_ok=True)
        s = os.path.join(scratch, "go_s")
        emitted = [f for f in self._copy(outdir, s, tests=False)]
        if not emitted:
            return {"build": {"ok": False, "log": "no .go file emitted"}, "events": [], "crash": None}
        self._prepare_driver(s)
        drv, ok, log = self._build_session(s, emitted)
        res = {"build": {"ok": ok, "log": log[-1500:] if not (ok and drv) else ""}, "events": [], "crash": None}
        moddir = s
        if not ok:
            # observe behaviour behind an unused-import build failure on a patched COPY
            p = os.path.join(scratch, "go_p")
            plog = log
            for _ in range(3):
                if not any(UNUSED.match(m) for _, _, m in self._errors(plog)):
                    break
                if plog is log:
                    self._copy(outdir, p, tests=False)
                    self._prepare_driver(p)
                if not self._patch_unused(p, plog):
                    break
                drv, pok, plog = self._build_session(p, emitted)
                if drv:
                    res["patched"] = "unused-imports"
                    moddir = p
                    break
                if pok:
                    break
            if not drv:
                return res
        elif not drv:
            # emitted code builds, the driver does not: the emitted types lack what the program declares
            res["build"]["log"] = ""
            for op in case["ops"]:
                if op["op"] in ("enc", "encinto"):
                    ev = {"ev": op["op"], "id": op["id"], "ok": False, "cls": "member-missing",
                          "err": "driver does not build: " + log[-600:]}
                    if op["op"] == "encinto":
                        ev["pre"] = len(op.get("pre", []))
                        ev["rd"] = int(op.get("rd", 0))
                    res["events"].append(ev)
            return res
        cp = os.path.join(scratch, "case_go.json")
        write(cp, json.dumps(case))
        res["events"], res["crash"] = self._run_driver(drv, cp, case["ops"], moddir)
        return res

    # ---------------------------------------------------------------------------------------
    def _gotest(self, moddir, module=MODULE):
        go, env = self._env()
        r = run([go, "test", "-json", "-timeout", "120s", "-trimpath", "-gcflags=%s=-e" % module, "-ldflags=-s -w", "./..."], cwd=moddir, env=env, timeout=600)
        ran = passed = failed = 0
        build_fail = False
        blog, tlog = [], []
        for line in r.stdout.splitlines():
            line = line.strip()
            if not line.startswith("{"):
                if line:
                    blog.append(line)
                continue
            try:
                e = json.loads(line)
            except ValueError:
                continue
            a = e.get("Action")
            if a in ("build-output",):
                blog.append(e.get("Output", "").rstrip("\n"))
            elif a == "build-fail" or e.get("FailedBuild"):
                build_fail = True
            elif a == "output":
                o = e.get("Output", "")
                if "[build failed]" in o or "[setup failed]" in o:
                    build_fail = True
                tlog.append(o.rstrip("\n"))
            elif e.get("Test") and "/" not in e["Test"]:
                if a == "run":
                    ran += 1
                elif a == "pass":
                    passed += 1
                elif a == "fail":
                    failed += 1
        if r.stderr.strip():
            blog.append(r.stderr.strip())
        if r.returncode != 0 and ran == 0:
            build_fail = True
        if r.timed_out:
            failed = max(failed, 1)
        return {"build_ok": not build_fail, "ran": ran, "passed": passed, "failed": failed,
                "blog": "\n".join(blog), "tlog": "\n".join(tlog), "rc": r.returncode}

    def _selftest(self, outdir, scratch):
        os.makedirs(scratch, exist_ok=True)
        t = os.path.join(scratch, "go_t")
        names = self._copy(outdir, t, tests=True)
        tests = [f for f in names if f.endswith("_test.go")]
        if not tests:
            return {"build_ok": False, "ran": 0, "passed": 0, "failed": 0, "log": "no *_test.go emitted"}
        module = MODULE
        for f in tests:
            m = TEST_IMPORT.search(read(os.path.join(t, f)))
            if m:
                module = m.group(1)
                break
        write(os.path.join(t, "go.mod"), self._gomod(module=module, tests=True))
        write(os.path.join(t, "go.sum"), _gosum())
        r = self._gotest(t, module)
        log = r["blog"] if not r["build_ok"] else ""
        if r["failed"] or (r["rc"] != 0 and r["build_ok"]):
            log += "\n" + r["tlog"]
        res = {"build_ok": r["build_ok"], "ran": r["ran"], "passed": r["passed"], "failed": r["failed"], "log": log.strip()[-1500:]}
        if not r["build_ok"]:
            # what the tests would do behind an unused-import build failure (patched COPY; build_ok stays False)
            plog = r["blog"]
            for _ in range(3):
                if not any(UNUSED.match(m) for _, _, m in self._errors(plog)):
                    break
                if not self._patch_unused(t, plog):
                    break
                r2 = self._gotest(t, module)
                plog = r2["blog"]
                if not r2["build_ok"]:
                    res["log"] = (log.strip()[-700:] + "\n--- copy without the unused imports ---\n" + plog.strip()[-700:])
                if r2["build_ok"]:
                    res.update(ran=r2["ran"], passed=r2["passed"], failed=r2["failed"], patched="unused-imports")
                    if r2["failed"]:
                        res["log"] = (log.strip()[-500:] + "\n--- copy without the unused imports ---\n" + r2["tlog"].strip()[-1000:])
                    break
        return res


PLUGIN = Go()
