"""TLC runner.  Every call: own scratch copy of the spec directory, own -metadir, `timeout`.
Parses: states generated / distinct, diameter, invariant violations, PrintT lines
(<<"TESTCASE", "json">> and <<"VERDICT", "json">>), coverage counts."""
import json
import os
import re
import shutil
import tempfile

from common import SPEC, Infra, run, NCPU

JAR = "/opt/veriftools/tla/tla2tools.jar"


def _cp():
    # the `tlc` wrapper knows the CommunityModules classpath; reuse it but call java directly so that
    # we control heap and properties.  Fall back to the wrapper when the layout is unknown.
    cands = [JAR]
    d = os.path.dirname(JAR)
    for f in sorted(os.listdir(d)):
        if f.endswith(".jar") and f != os.path.basename(JAR):
            cands.append(os.path.join(d, f))
    return ":".join(cands)


class TlcResult:
    def __init__(self):
        self.rc = None
        self.out = ""
        self.generated = 0
        self.distinct = 0
        self.depth = 0
        self.violated = []      # invariant / property names reported violated
        self.errors = []        # other error text
        self.testcases = []     # parsed JSON of TESTCASE lines
        self.verdicts = []      # parsed JSON of VERDICT lines
        self.prints = []        # other PrintT tuples (raw text)
        self.coverage = {}      # action -> (distinct?, count)
        self.timed_out = False
        self.wall = 0.0
        self.cmd = ""

    @property
    def ok(self):
        return self.rc == 0 and not self.violated and not self.errors and not self.timed_out


_PRINT = re.compile(r'^<<"(TESTCASE|VERDICT|INFO)", "(.*)">>$')


def _unescape_tla_string(s):
    # TLC prints strings with \" and \\ escaped
    out = []
    i = 0
    while i < len(s):
        c = s[i]
        if c == "\\" and i + 1 < len(s):
            n = s[i + 1]
            if n == '"':
                out.append('"'); i += 2; continue
            if n == "\\":
                out.append("\\"); i += 2; continue
            if n == "n":
                out.append("\n"); i += 2; continue
            if n == "t":
                out.append("\t"); i += 2; continue
        out.append(c)
        i += 1
    return "".join(out)


def run_tlc(module, cfg, files=None, workers=None, timeout=600, simulate=None, depth=None,
            seed=None, coverage=False, extra_files=None, defines=None, heap="4g", deadlock=None):
    """module: 'Pipeline' (spec/Pipeline.tla); cfg: 'Pipeline.cfg' (in spec/) or literal cfg text
    (contains a newline); extra_files: {name: content} placed next to the spec (e.g. trace.ndjson)."""
    res = TlcResult()
    tmp = tempfile.mkdtemp(prefix="verif-tlc-")
    try:
        for f in os.listdir(SPEC):
            if f.endswith(".tla"):
                shutil.copy(os.path.join(SPEC, f), tmp)
        if "\n" in cfg:
            cfgname = module + "_gen.cfg"
            with open(os.path.join(tmp, cfgname), "w") as fh:
                fh.write(cfg)
        else:
            cfgname = cfg
            shutil.copy(os.path.join(SPEC, cfg), tmp)
        for name, content in (extra_files or {}).items():
            mode = "wb" if isinstance(content, bytes) else "w"
            with open(os.path.join(tmp, name), mode) as fh:
                fh.write(content)
        meta = os.path.join(tmp, "meta")
        cmd = ["timeout", "-k", "10", str(int(timeout)), "java", "-Xmx" + heap, "-Xss64m",
               "-XX:+UseParallelGC", "-cp", _cp()]
        for k, v in (defines or {}).items():
            cmd.append("-D%s=%s" % (k, v))
        cmd += ["tlc2.TLC", "-metadir", meta, "-config", cfgname, "-noGenerateSpecTE"]
        if simulate:
            cmd += ["-simulate", simulate]
            if depth:
                cmd += ["-depth", str(depth)]
        if seed is not None:
            cmd += ["-seed", str(seed)]
        if coverage:
            cmd += ["-coverage", "1"]
        if deadlock is False:
            cmd += ["-deadlock"]
        cmd += ["-workers", str(workers or 1), module + ".tla"]
        res.cmd = " ".join(cmd)
        env = dict(os.environ)
        env.pop("JAVA_TOOL_OPTIONS", None)
        r = run(cmd, cwd=tmp, env=env, timeout=timeout + 30)
        res.rc = r.returncode
        res.out = r.stdout + r.stderr
        res.wall = r.wall
        res.timed_out = r.timed_out or r.returncode in (124, 137)
        _parse(res)
    finally:
        shutil.rmtree(tmp, ignore_errors=True)
    return res


def _parse(res):
    for line in res.out.splitlines():
        line = line.rstrip()
        m = _PRINT.match(line)
        if m:
            kind, payload = m.group(1), _unescape_tla_string(m.group(2))
            try:
                obj = json.loads(payload)
            except ValueError:
                res.errors.append("unparsable %s line: %s" % (kind, line[:200]))
                continue
            if kind == "TESTCASE":
                res.testcases.append(obj)
            elif kind == "VERDICT":
                res.verdicts.append(obj)
            else:
                res.prints.append(obj)
            continue
        m = re.match(r"^(\d+) states generated, (\d+) distinct states found", line)
        if m:
            res.generated, res.distinct = int(m.group(1)), int(m.group(2))
            continue
        m = re.match(r"^The depth of the complete state graph search is (\d+)", line)
        if m:
            res.depth = int(m.group(1))
            continue
        m = re.match(r"^Error: Invariant (\S+) is violated", line)
        if m:
            res.violated.append(m.group(1))
            continue
        m = re.match(r"^Error: Action property (\S+) is violated", line)
        if m:
            res.violated.append(m.group(1))
            continue
        if line.startswith("Error: Temporal properties were violated") or "is violated" in line and line.startswith("Error:"):
            res.violated.append(line)
            continue
        if line.startswith("Error:") or "java.lang.StackOverflowError" in line or "OutOfMemoryError" in line:
            res.errors.append(line)
            continue
        m = re.match(r"^<(\w+) line \d+, col \d+ to line \d+, col \d+ of module (\w+)>: (\d+):(\d+)", line)
        if m:
            res.coverage[m.group(1)] = (int(m.group(3)), int(m.group(4)))
    # simulation mode prints different stats
    if res.generated == 0:
        m = re.search(r"The number of states generated: (\d+)", res.out)
        if m:
            res.generated = int(m.group(1))
            res.distinct = res.distinct or res.generated


def require_ok(res, what):
    """Model checking of the *specification* must succeed; otherwise infrastructure failure."""
    if res.timed_out:
        raise Infra("TLC timed out on %s" % what)
    if res.violated or res.errors or res.rc != 0:
        raise Infra("TLC failed on %s: violated=%s errors=%s rc=%s\n%s" % (
            what, res.violated, res.errors[:3], res.rc, res.out[-3000:]))
    return res
