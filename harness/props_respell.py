"""C08: generated code depends on meaning, not spelling -- Respell.tla / TraceRespell.tla."""
import json
import os

import dsl
import dsltok
import tlc
from common import Infra, Scratch, build_cli, pmap, run, seed, sha, write
from evidence import Report
from props_pipeline import FLAG, LANGS, cli_tree


def spelled_text(case):
    """-> (base text, respelled text) for one TESTCASE of Respell.tla"""
    p0, p1, site = case["prog0"], case["prog"], case["site"]
    kind, j, i = site
    base = dsl.render(p0)
    sp = {}
    if kind in ("long", "charbr", "zexplicit", "defpad", "prefixattr", "expand", "nopaircomma", "doc"):
        pk = p0["pkts"][j - 1]
        f = pk["fields"][i - 1]
        key = pk["name"] + "." + f["name"]
        sp[key] = {kind: True} if kind != "doc" else {"doc": "was zchar[8] uint16, repeat string; char[] match root packet @leftPad('0') @lengthOf(x) options { } , 010 // not a comment /* nor this */ \"q\" # --"}
        return base, dsl.render(p0, sp)
    if kind in ("inline", "inlineall"):
        return base, dsl.render(p1)
    if kind == "defopt1":
        return base, dsl.render(p0, {"defopt1": i})
    if kind == "defopts":
        return base, dsl.render(p0, {"defopts": True})
    if kind == "metalast":
        return base, dsl.render(p0, {"metalast": True})
    if kind == "nosemi":
        return base, dsl.render(p0, {"nosemi": True})
    if kind == "comments":
        t = base
        n = len([x for x in dsltok.tokenize(t) if x.type != "LINE_COMMENT"])
        for k, idx in enumerate(range(n - 1, 0, -7)):
            # comment texts made of the DSL's own keywords, and of what OTHER languages take for comment / string delimiters
            words = ["note %d: zchar[4] repeat @tag(1) packet {" % k, "topic md/*/depth %d /* opened" % k,
                     "closed here */ quote/*/ `tick` \"q\" 'c' # -- <!-- %d" % k][k % 3]
            t = dsltok.insert_comment(t, idx, "own" if k % 2 else "same", words)
        return base, "// header\n" + t + "// trailer\n"
    if kind == "relayout":
        return base, dsltok.relayout(base, ["fewlines", "oneperline", "tabscrlf"][case["base"] % 3], seed())
    raise Infra("unknown respell site %r" % (site,))


def check_c08(tier):
    rep = Report("C08", tier, "model_checking")
    cli = build_cli()
    g = tlc.run_tlc("Respell", "Respell.cfg", workers=1, timeout=900)
    tlc.require_ok(g, "Respell.tla (MeaningPreserved)")
    rep.tlc(g)
    cases = g.testcases
    if len(cases) < 50:
        raise Infra("Respell.tla produced only %d cases" % len(cases))
    with Scratch() as tmp:
        bases = {}

        def comp(text, root):
            os.makedirs(root, exist_ok=True)
            p = os.path.join(root, "p.dsl")
            write(p, text)
            r, tree = cli_tree(cli, p, LANGS, root)
            return r.returncode, {l: ({k: v[:16] for k, v in t.items()} or {"none": ""}) for l, t in tree.items()}, (r.stdout + r.stderr)[-400:]

        def one(ic):
            i, c = ic
            b, t = spelled_text(c)
            return i, b, t, comp(b, os.path.join(tmp, "b%d" % i)), comp(t, os.path.join(tmp, "r%d" % i))
        results = pmap(one, list(enumerate(cases)), workers=16)
    events, meta = [], []
    for i, b, t, (brc, bfiles, bout), (rc, files, out) in results:
        c = cases[i]
        if brc != 0:
            raise Infra("base program %d of Respell.tla is rejected by the compiler: %s" % (c["base"], bout))
        events.append({"ev": "base", "files": bfiles})
        meta.append(None)
        events.append({"ev": "respell", "site": c["site"], "exit": rc, "files": files})
        meta.append({"case": c, "base": b, "text": t, "out": out})
    text = "\n".join(json.dumps(e, sort_keys=True) for e in events) + "\n"
    r = tlc.run_tlc("TraceRespell", "SPECIFICATION Spec\nPOSTCONDITION Accepted\nCHECK_DEADLOCK FALSE\n", workers=1, timeout=600,
                    extra_files={"trace.ndjson": text})
    if not r.ok or r.depth != len(events) + 1:
        raise Infra("TraceRespell failed: %s %s\n%s" % (r.errors[:3], r.violated, r.out[-1500:]))
    rep.tlc(r, traces=len(cases))
    failing = {v["i"]: v for v in r.verdicts}
    for i, (e, m) in enumerate(zip(events, meta), 1):
        if e["ev"] != "respell":
            continue
        c = m["case"]
        kind, j, k = c["site"]
        fname = c["prog0"]["pkts"][j - 1]["fields"][k - 1]["name"] if j else ("-" if not k else "opt%d" % k)
        base = "base%d|%s|%s" % (c["base"], kind, fname)
        v = failing.get(i)
        if not v:
            rep.case(base + "|ok", True)
            continue
        for l in sorted(v["differs"]):
            rep.case("%s|%s" % (base, l), False, "respelling site %s of base %d changes the %s output (exit %s) %s" % (c["site"], c["base"], l, e["exit"], m["out"][-200:] if e["exit"] else ""),
                     {"base_dsl": m["base"], "respelled_dsl": m["text"], "site": c["site"], "target": l,
                      "how": "compile both texts with fin-protoc (all six outputs) and compare the file sets byte for byte"})
    rep.sample({"site": cases[10]["site"], "base": cases[10]["base"], "texts": list(spelled_text(cases[10]))[1][:400]})
    rep.assumptions += ["the renderer only lays out the tokens TLC prescribes; Meaning-preservation of every rewrite is checked by TLC on Respell.tla"]
    return rep.finish("3 composite base programs (DslGen cells) x every single respelling site TLC enumerates (%d cases: aliases, char[], zchar vs explicit NUL "
                      "right-padding, explicit default padding, prefixed attributes, explicit default options, expanded key lists, MetaData-typed vs inlined "
                      "(one field / all fields), optional separators, doc strings, comments, re-layout); distinct = (base, site kind, field, target)" % len(cases),
                      exhaustive=True)
