"""Independent PacketDSL tokenizer (written from grammar/PacketDsl.g4, not from the ANTLR output) and
the whitespace re-layouts of C10.  The tokenizer is cross-checked against the real ANTLR token stream
through the overlay driver (`tokens`); a disagreement is an infrastructure failure (exit 2)."""
import random
import re

# implicit literal tokens of the parser rules, then the named lexer rules in grammar order
LITERALS = ["@calculatedFrom(", "@lengthOf(", "@tag(", "options", "zchar[", "char[]", "char[", "string", "false", "true",
            "as", "{", "}", "=", "(", ")", "[", "]"]
NAMED = [
    ("CHAR", r"char"),
    ("UINT8", r"uint8|u8"), ("UINT16", r"uint16|u16"), ("UINT32", r"uint32|u32"), ("UINT64", r"uint64|u64"),
    ("INT8", r"int8|i8"), ("INT16", r"int16|i16"), ("INT32", r"int32|i32"), ("INT64", r"int64|i64"),
    ("FLOAT32", r"float32|f32"), ("FLOAT64", r"float64|f64"),
    ("DIGITS", r"[0-9]+"),
    ("STRING", r'"(?:[^"\\\r\n]|\\.)*"'),
    ("PADDING_ATTR", r"@(?:left|right)Pad"),
    ("PADDING_CHAR", r"'(?:0| |\\x00)'"),
    ("ROOT", r"root"), ("PACKET", r"packet"), ("REPEAT", r"repeat"), ("METADATA", r"MetaData"), ("MATCH", r"match"),
    ("COLON", r":"), ("COMMA", r","), ("SEMICOLON", r";"),
    ("IDENTIFIER", r"[a-zA-Z_][a-zA-Z_0-9]*"),
    ("STRING_LITERAL", r"`[^`]*`"),
    ("LINE_COMMENT", r"//[^\r\n]*"),
    ("WS", r"[ \t\r\n]+"),
]
_RULES = [("'%s'" % l, re.compile(re.escape(l))) for l in LITERALS] + [(n, re.compile(p, re.S)) for n, p in NAMED]


class Tok:
    __slots__ = ("type", "text", "line", "pos")

    def __init__(self, type, text, line, pos):
        self.type, self.text, self.line, self.pos = type, text, line, pos

    def __repr__(self):
        return "%s(%r)@%d" % (self.type, self.text, self.line)


class LexError(Exception):
    pass


def tokenize(text):
    """-> list of Tok for default-channel tokens and LINE_COMMENTs (type 'LINE_COMMENT'); WS dropped.
    Longest match, ties to the earlier rule (ANTLR semantics).  Unlexable characters raise LexError."""
    toks = []
    i, line = 0, 1
    n = len(text)
    while i < n:
        best, bt = None, None
        for name, rx in _RULES:
            m = rx.match(text, i)
            if m and m.end() > i and (best is None or m.end() > best.end()):
                best, bt = m, name
        if best is None:
            raise LexError("cannot lex at offset %d: %r" % (i, text[i:i + 10]))
        s = best.group(0)
        if bt != "WS":
            toks.append(Tok(bt, s, line, i))
        line += s.count("\n")
        i = best.end()
    return toks


def ems(toks):
    """Essential merged stream: token texts and comments in reading order, `,` and `;` removed."""
    return [t.text for t in toks if t.type not in ("COMMA", "SEMICOLON")]


def attach(toks):
    """-> list of items (tok, trailing_comments[list], own_line_comments_before[list]) for default tokens;
    plus trailing own-line comments at the end of file.  A comment on the line of a token (after it) is
    'trailing' of that token; any other comment is an own-line comment before the next token."""
    items = []
    pend_own = []
    last = None
    for t in toks:
        if t.type == "LINE_COMMENT":
            if last is not None and t.line == last[0].line + last[0].text.count("\n"):
                last[1].append(t.text)
            else:
                pend_own.append(t.text)
        else:
            last = (t, [], pend_own)
            items.append(last)
            pend_own = []
    return items, pend_own


def relayout(text, k, seed=0):
    """Same tokens, same comments on the line of the same token, different spaces/tabs/newlines."""
    toks = tokenize(text)
    items, tail = attach(toks)
    rnd = random.Random(seed)
    out = []
    first = True
    # line ends the harness itself writes; the text INSIDE a token (a documentation string may span lines) is never touched
    nl = "\r\n" if k == "tabscrlf" else "\n"
    for tok, trailing, own in items:
        for c in own:
            if out and not out[-1].endswith("\n"):
                out.append(nl)
            out.append(c + nl)
        if k == "oneperline":
            sep = "" if first or out[-1].endswith("\n") else "\n"
        elif k == "fewlines":
            sep = "" if first or out[-1].endswith("\n") else " "
        elif k == "tabscrlf":
            sep = "" if first or out[-1].endswith("\n") else rnd.choice(["\t", "\r\n", "\t\t", " \r\n\t"])
        elif k == "blanklines":
            sep = "" if first else ("\n\n" if not out[-1].endswith("\n") else "\n")
        else:  # random
            sep = "" if first or out[-1].endswith("\n") and rnd.random() < 0.5 else rnd.choice([" ", "  ", "\n", "\n\n", "\t", " \n  ", "\n    "])
        out.append(sep + tok.text)
        first = False
        if trailing:
            out.append(" " + " ".join(trailing) + nl)     # several comments on one line merge into one comment token anyway
    for c in tail:
        if out and not out[-1].endswith("\n"):
            out.append(nl)
        out.append(c + nl)
    return "".join(out)


LAYOUTS = ["oneperline", "fewlines", "tabscrlf", "blanklines", "random"]


def boundaries(toks):
    """Indices i (0..len) of default-channel token boundaries: before token i."""
    d = [t for t in toks if t.type != "LINE_COMMENT"]
    return d


def insert_comment(text, idx, placement, label="c"):
    """Insert `// <label>` at the boundary before default token idx (idx == ntokens: end of file).
    placement 'same': trailing on the line of the previous token; 'own': on its own line."""
    toks = [t for t in tokenize(text) if t.type != "LINE_COMMENT"]
    pos = toks[idx].pos if idx < len(toks) else len(text)
    # cut the text at pos; ensure the previous token's line ends after the comment
    before, after = text[:pos], text[pos:]
    if placement == "same":
        b = before.rstrip(" \t\r\n")
        if idx == 0:
            return "// %s\n" % label + text       # nothing before: same as own line at start
        return b + " // %s\n" % label + after
    b = before.rstrip(" \t")
    if b and not b.endswith("\n"):
        b += "\n"
    return b + "// %s\n" % label + after
