"""Syntax-rich documents for the formatter checks (C09, C10, C16, C11): every grammar alternative and
optional element appears present and absent somewhere.  Comment positions are enumerated by the
check (every token boundary x {same line, own line})."""

RICH = """options {
    LittleEndian = true;
    StringPrefixLenType = u8
    ArrayPrefixLenType = u16;
    FixedStringPadChar = '0';
    JavaPackage = "com.x.y";
    GoPackage = "msg";
    GoModule = "example.com/msg";
}

MetaData Common {
    u32 Qty `quantity`,
    Qty Amount `alias of Qty`,
    char[4] Code `code`,
    Code Venue `alias of Code`,
    string Text `text`,
}

root packet Root {
    uint16 MsgType `message type`,
    u32 BodyLen @lengthOf(Body) `length of body`,
    @tag(7) u8 Flags,
    @leftPad('0') char[6] Account,
    @rightPad(' ') repeat char[3] Tags,
    zchar[8] Name,
    repeat string Notes,
    Code,
    Qty Volume,
    repeat Sub Subs `subs`,
    Sub `the sub`,
    repeat Empty `no name, with doc`,
    Inner {
        i16 a,
        repeat f64 bs,
    },
    match MsgType as Body {
        1 : Logon,
        [2, 3] : Logout,
        [10, 11, 12, 13, 14, 15, 16] : Logon,
        [20, 21, 22, 23, 24, 25, 26, 27, 28, 29] : Logout,
        4 : Empty
    },
    @calculatedFrom("VSUM32") u32 Check,
}

packet Logon {
    string User,
    char[] Pass,
}

packet Logout {
    i64 Reason,
}

packet Empty {
}

packet Sub {
    float32 Px,
    int32 N `count`,
}
"""

# string keys, list of strings, prefixed lengthOf, inline checksum, no options / metadata
SECOND = """root packet Hdr {
    string Kind,
    @lengthOf(Payload) u16 Len,
    match Kind as Payload {
        "AB" : A,
        ["C", "D,E", "F G"] : B,
    },
    u16 Ck @calculatedFrom("VSUM16") `checksum`,
}
packet A { u8 x, }
packet B { repeat Inner { u8 p, }, f32 y, }
"""

MINIMAL = "packet P {\n}\n"

# characters that are special to printf-style formatting, templates, shells, HTML and escapes, placed
# where the grammar admits free text: comments, documentation strings, string option values
SPECIAL = """// 100% of %d %s %v %!x {{.Name}} ${HOME} <b>&amp;</b> \\n \\t "quoted" 'single' \u00e9 \xe9 é €
options {
    JavaPackage = "com.x.y";
    GoPackage = "msg";
    GoModule = "example.com/msg%20x";
}
root packet Special {
    u8 Kind `100% sure: %d items, {{braces}}, <tag> & "quotes"`, // trailing 50%s
    // own line %v %% %
    string Note `tab\there \\ backslash`,
    u16 Len @lengthOf(Body) `at most 80% of the MTU, %d bytes 100%`,
    One Extra `an object, 50% off %s`,
    match Kind as Body {
        // before pair %d
        1 : One,
    },
}
packet One {
    u16 v `é€ unicode`,
    u32 Crc @calculatedFrom("VSUM32") `sum %x of 100%`,
}
// every spelling of a pad character, the escapes among them: what the formatter prints must still be what the author wrote
packet Pads {
    @leftPad('\\x00') char[4] a `nul on the left`,
    @rightPad('\\x00') repeat char[2] b,
    @leftPad(' ') char[3] c,
    @rightPad('0') char[3] d,
    @leftPad('0') @tag(3) char[3] e,
    zchar[5] z,
}
"""

# documentation strings that span several lines (the lexer admits line breaks inside back quotes), at every
# nesting depth and in every declaration form that takes one
MULTILINE = """MetaData Common {
    u32 Qty `quantity
  in lots`,
    Qty Amount `alias
of Qty`,
}

root packet Doc {
    u16 Kind `first line
second line
   third line`,
    u16 Len @lengthOf(Body) `length
of the body`,
    Amount `amount
doc`,
    Leg {
        u8 side `inner
    doc`,
    },
    match Kind as Body {
        1 : One,
    },
    @calculatedFrom("VSUM16") u16 Ck `check
sum`,
    u32 Ck2 @calculatedFrom("VSUM32") `second
  check`,
    One Extra `an object
with a doc`,
}
packet One {
    u16 v,
}
"""

# nothing but comments: valid (the grammar derives the empty packet list), and every comment must survive
COMMENTS = "// first line\n// second line %d {\n\n// after a blank line\n"

DOCS = {"rich": RICH, "second": SECOND, "minimal": MINIMAL, "special": SPECIAL, "multiline": MULTILINE, "comments": COMMENTS}

# compile-able? (rich uses @tag and MetaData refs; all three are accepted by the compiler)
