"""C16 (every entry point delivers exactly the library result) and C11 (no input crashes) -- Entry.tla / TraceEntry.tla."""
import json
import os
import random
import re
import sys

import docs
import dsl
import dsltok
import tlc
from common import Infra, Scratch, build_cli, build_driver, build_lib, pmap, run, seed, sha, write
from evidence import Report
from props_pipeline import FLAG, LANGS

HERE = os.path.dirname(os.path.abspath(__file__))
SITE = re.compile(r"github\.com/xinchentechnote/fin-protoc/((?:internal|cmd)[^\s(]*(?:\([^)]*\))?[^\s(]*)")


def panic_site(stderr):
    """innermost fin-protoc frame of a Go panic / fatal error trace"""
    if "goroutine" not in stderr and "panic" not in stderr and "fatal error" not in stderr:
        return "no-trace"
    for line in stderr.splitlines():
        line = line.strip()
        m = re.match(r"(?:main|github\.com/xinchentechnote/fin-protoc/[\w/]+)\.([\w\.\(\)\*]+)\(", line)
        if m and ("fin-protoc" in line or line.startswith("main.")):
            return m.group(1)
    if "stack overflow" in stderr or "goroutine stack exceeds" in stderr:
        return "stack-overflow"
    return "unknown-site"


def outcome_of(r):
    err = r.stderr if isinstance(r.stderr, str) else r.stderr.decode("latin-1")
    if r.timed_out:
        return "hang", "timeout"
    if "panic:" in err or "fatal error:" in err or "[signal SIG" in err:
        return "panic", panic_site(err)
    if r.returncode < 0 or r.returncode >= 128:
        return "abort", "signal-%s" % r.returncode
    return "ok", ""


def lib_format(lib, text_bytes, tmp, n):
    p = os.path.join(tmp, "libin%d.bin" % n)
    write(p, text_bytes)
    r = run([sys.executable, os.path.join(HERE, "libcall.py"), lib, p], timeout=150)
    oc, site = outcome_of(r)
    ret = None
    if oc == "ok":
        try:
            ret = json.loads(r.stdout.strip().splitlines()[-1])["ret"]
        except (ValueError, IndexError, KeyError):
            oc, site = "abort", "no-result rc=%s" % r.returncode
    return oc, site, ret


def lib_session(lib, texts, tmp, n):
    """the calls of ONE library process, in order -> [(outcome, site, ret)] (a call the process did not survive is the
    dead one, the calls after it are not made)"""
    paths = []
    for k, t in enumerate(texts):
        p = os.path.join(tmp, "libses%d_%d.bin" % (n, k))
        write(p, t)
        paths.append(p)
    r = run([sys.executable, os.path.join(HERE, "libcall.py"), lib] + paths, timeout=150 + 10 * len(paths))
    oc, site = outcome_of(r)
    rets = []
    for line in r.stdout.strip().splitlines():
        try:
            rets.append(json.loads(line)["ret"])
        except (ValueError, KeyError):
            break
    out = [("ok", "", x) for x in rets[:len(texts)]]
    if len(out) < len(texts):
        out.append((oc if oc != "ok" else "abort", site or "no-result rc=%s" % r.returncode, None))
    return out


def lib_reference(drv, text, tmp, n):
    """the library result through the overlay driver (in-process parser.FormatPacketDsl)"""
    p = os.path.join(tmp, "ref%d.dsl" % n)
    write(p, text)
    r = run([drv, "fmt", p], timeout=60)
    try:
        return json.loads(r.stdout)
    except ValueError:
        return {"ok": False, "panic": "driver died: " + r.stderr[-200:]}


def gens_reference(drv, text, tmp, n):
    p = os.path.join(tmp, "gen%d.dsl" % n)
    write(p, text)
    r = run([drv, "seq", p, ",".join(LANGS)], timeout=60)
    try:
        o = json.loads(r.stdout)
    except ValueError:
        return None
    if not o.get("parse", {}).get("ok") or "gens" not in o:
        return None
    # file-map keys are paths relative to the output directory; "a//b" and "a/b" name the same file
    return {g["lang"]: ({os.path.normpath(k): v[:16] for k, v in g["files"].items()} or {"none": ""}) for g in o["gens"]}


def tree_of(root):
    fm = {}
    for dp, _, fs in os.walk(root):
        for f in fs:
            p = os.path.join(dp, f)
            fm[os.path.relpath(p, root)] = sha(open(p, "rb").read())[:16]
    return fm


class Runner:
    def __init__(self, tmp):
        self.cli = build_cli()
        self.drv = build_driver()
        if self.drv is None:
            raise Infra("overlay driver unavailable")
        self.lib = build_lib()
        self.tmp = tmp
        self.n = 0
        import threading
        self.lock = threading.Lock()

    def nxt(self):
        with self.lock:
            self.n += 1
            return self.n

    def doc_event(self, text, want_gens):
        n = self.nxt()
        ref = lib_reference(self.drv, text, self.tmp, n)
        gens = gens_reference(self.drv, text, self.tmp, n) if want_gens else None
        return {"ev": "doc", "text": text, "valid": gens is not None if want_gens else bool(ref.get("ok")),
                "lib_ok": bool(ref.get("ok")), "lib_result": ref.get("result", ""), "lib_err": ref.get("err", ""),
                "lib_panic": bool(ref.get("panic")),
                "gens": gens or {"none": {"none": ""}}}

    def call(self, op, text, langs=(), dirshape="rel", gens=None, libres=None):
        n = self.nxt()
        wd = os.path.join(self.tmp, "w%d" % n)
        os.makedirs(wd)
        env = dict(os.environ, HOME=wd, TMPDIR=wd)
        e = {"ev": "call", "op": op, "text": text if len(text) < 4000 else text[:4000], "stdout": "", "exit": 0, "before": "", "after": "",
             "ret": "", "outcome": "ok", "langs": list(langs), "tree": {"none": {"none": ""}}, "elsewhere": [], "nfiles": 0, "dirshape": dirshape}
        site = ""
        if op == "format-d":
            # bytes in, bytes out: no newline translation by the harness (a CR is part of what is printed)
            r = run([self.cli, "format", "-d", text], cwd=wd, env=env, timeout=150, text=False)
            r.stdout = r.stdout.decode("utf-8", "surrogateescape") if isinstance(r.stdout, bytes) else r.stdout
            r.stderr = r.stderr.decode("utf-8", "replace") if isinstance(r.stderr, bytes) else r.stderr
            e["outcome"], site = outcome_of(r)
            e["stdout"], e["exit"] = r.stdout, r.returncode
        elif op == "format-f":
            p = os.path.join(wd, "in.dsl")
            write(p, text.encode("utf-8", "surrogateescape"))
            r = run([self.cli, "format", "-f", p], cwd=wd, env=env, timeout=150)
            e["outcome"], site = outcome_of(r)
            e["exit"] = r.returncode
            e["before"] = text
            e["after"] = open(p, "rb").read().decode("utf-8", "surrogateescape") if os.path.exists(p) else "<deleted>"
            e["elsewhere"] = sorted(x for x in os.listdir(wd) if x != "in.dsl")
        elif op == "lib":
            # libres: the answer this call got inside a longer-lived library process (lib_session)
            oc, site, ret = libres if libres is not None else lib_format(self.lib, text.encode("utf-8", "surrogateescape"), self.tmp, n)
            e["outcome"] = oc
            e["ret"] = ret if ret is not None else ""
        else:
            p = os.path.join(wd, "in.dsl")
            write(p, text.encode("utf-8", "surrogateescape"))
            dirs = {}
            for l in langs:
                if dirshape == "abs":
                    dirs[l] = os.path.join(wd, "o", l)
                elif dirshape == "nested":
                    dirs[l] = os.path.join("o", "deep", "er", l)
                elif dirshape == "subcmd":
                    # directories named like the subcommands / cobra built-ins
                    dirs[l] = ["format", "compile", "help", "completion", "fin-protoc", "-"][LANGS.index(l)] if l in LANGS else l
                    if dirs[l] == "-":
                        dirs[l] = "./-"
                elif dirshape == "existing":
                    dirs[l] = os.path.join("o", l)
                    os.makedirs(os.path.join(wd, dirs[l]))
                    write(os.path.join(wd, dirs[l], "stale.txt"), "stale")
                elif dirshape == "rerun":
                    dirs[l] = os.path.join("o", l)
                elif dirshape == "shared":
                    # every requested target writes into ONE directory
                    dirs[l] = os.path.join("o", "all")
                elif dirshape in ("overlap", "overlap-rev"):
                    # one target's directory CONTAINS the directories of the others (outer = the first / the last requested)
                    outer = langs[0] if dirshape == "overlap" else langs[-1]
                    dirs[l] = os.path.join("o", "all") if l == outer else os.path.join("o", "all", "zz.inner." + l)
                else:
                    dirs[l] = os.path.join("o", l)
            args = [self.cli] + (["compile"] if op == "compile-word" else []) + ["-f", "in.dsl"]
            for l in langs:
                args += [FLAG[l], dirs[l]]
            if dirshape == "rerun":
                # a first run fills the directories; every file then grows a tail, as if an earlier, longer version of
                # the protocol had been compiled there; the run that is recorded must leave exactly the generators' bytes
                run(args, cwd=wd, env=env, timeout=240)
                for l in langs:
                    for dp, _dn, fs in os.walk(os.path.join(wd, dirs[l])):
                        for f in fs:
                            with open(os.path.join(dp, f), "ab") as fh:
                                fh.write(b"\n// stale tail of an earlier, longer file\n" * 8)
            r = run(args, cwd=wd, env=env, timeout=240)
            e["outcome"], site = outcome_of(r)
            e["exit"] = r.returncode
            tree = {}
            nfiles = 0
            if dirshape == "shared" and langs:
                # one directory holds the union: each target's share is what the generators say it owns; a file
                # nobody owns is charged to the first target (its tree then differs)
                whole = tree_of(os.path.join(wd, "o", "all"))
                nfiles = len(whole)
                owned = set()
                for l in langs:
                    exp = (gens or {}).get(l) or {}
                    tree[l] = {f: whole[f] for f in exp if f in whole} or {"none": ""}
                    owned |= set(exp)
                stray = {"stray:" + f: h for f, h in whole.items() if f not in owned}
                if stray:
                    tree[langs[0]] = dict(tree[langs[0]], **stray)
            for l in (langs if dirshape != "shared" else ()):
                t = tree_of(os.path.join(wd, dirs[l]))
                t.pop("stale.txt", None)
                if dirshape in ("overlap", "overlap-rev"):
                    # the outer directory also holds the inner ones, which belong to the other targets
                    t = {f: h for f, h in t.items() if not f.startswith("zz.inner.")}
                nfiles += len(t)
                tree[l] = t or {"none": ""}
            e["tree"] = tree or {"none": {"none": ""}}
            e["nfiles"] = nfiles
            # anything created outside the requested directories (the working directory is otherwise empty)
            requested = {os.path.normpath(os.path.join(wd, d)) for d in dirs.values()}
            els = []
            for dp, dn, fs in os.walk(wd):
                if any(os.path.normpath(dp) == q or os.path.normpath(dp).startswith(q + os.sep) for q in requested):
                    dn[:] = []
                    continue
                for f in fs:
                    if not (dp == wd and f == "in.dsl"):
                        els.append(os.path.relpath(os.path.join(dp, f), wd))
            e["elsewhere"] = sorted(els)
        return e, site


def validate(events):
    text = "\n".join(json.dumps({k: v for k, v in e.items() if k not in ("lib_panic", "dirshape")}, sort_keys=True) for e in events) + "\n"
    cfg = "SPECIFICATION Spec\nPOSTCONDITION Accepted\nCHECK_DEADLOCK FALSE\n"
    r = tlc.run_tlc("TraceEntry", cfg, workers=1, timeout=1200, extra_files={"trace.ndjson": text}, heap="4g")
    if not r.ok or r.depth != len(events) + 1:
        raise Infra("TraceEntry failed: rc=%s %s %s depth=%s/%s\n%s" % (r.rc, r.errors[:3], r.violated, r.depth, len(events) + 1, r.out[-2000:]))
    return r, {v["i"]: v["fails"] for v in r.verdicts}


def mc_entry(rep):
    g = tlc.run_tlc("Entry", "Entry.cfg", workers=4, timeout=300)
    tlc.require_ok(g, "Entry.tla")
    rep.tlc(g)
    cfg = open(os.path.join(tlc.SPEC, "Entry.cfg")).read().replace("DebugPrintArgc = FALSE", "DebugPrintArgc = TRUE")
    s = tlc.run_tlc("Entry", cfg, workers=4, timeout=300)
    if "StdoutExact" not in s.violated:
        raise Infra("Entry.tla with DebugPrintArgc does not violate StdoutExact")
    rep.cov["spec_sensitivity"] = {"DebugPrintArgc": s.violated}
    s = tlc.run_tlc("Entry", open(os.path.join(tlc.SPEC, "Entry.cfg")).read().replace("LibMemo = FALSE", "LibMemo = TRUE"), workers=4, timeout=300)
    if "LibIsResult" not in s.violated:
        raise Infra("Entry.tla with LibMemo does not violate LibIsResult")
    rep.cov["spec_sensitivity"]["LibMemo"] = s.violated
    hs = {}
    for t in g.testcases:
        hs[json.dumps(t, sort_keys=True)] = t
    return list(hs.values())


def invalid_of(text):
    toks = [t for t in dsltok.tokenize(text) if t.text == "}"]
    b = toks[len(toks) // 2]
    return text[:b.pos] + " " + text[b.pos + 1:]


SHAPES = ["rel", "abs", "nested", "existing", "subcmd", "shared", "rerun", "overlap", "overlap-rev"]


def check_c16(tier):
    rep = Report("C16", tier, "model_checking")
    thorough = tier == "thorough"
    hists = mc_entry(rep)
    concrete = {"valid1": docs.RICH, "valid2": docs.SECOND, "invalid": invalid_of(docs.RICH), "special": docs.SPECIAL}
    with Scratch() as tmp:
        R = Runner(tmp)
        jobs = []
        # 1. the histories of Entry.tla on concrete texts
        for h in hists:
            jobs.append(("hist", h))
        # 2. compile: flag subsets x word x directory shapes on both compilable documents
        import itertools
        subsets = [c for k in (1, 2, 6) for c in itertools.combinations(LANGS, k)] if not thorough else \
                  [c for k in range(1, 7) for c in itertools.combinations(LANGS, k)]
        for name in ("valid1", "valid2", "special"):
            for i, sub in enumerate(subsets if name != "special" else subsets[::5]):
                for word in (False, True):
                    shape = SHAPES[(i + int(word)) % len(SHAPES)] if not thorough else None
                    for sh in ([shape] if shape else SHAPES):
                        jobs.append(("compile", (name, sub, word, sh)))
        # 3. format entry points on more texts: comment variants and invalid mutations
        extra = []
        for name in ("rich", "second"):
            text = docs.DOCS[name]
            ntok = len([t for t in dsltok.tokenize(text) if t.type != "LINE_COMMENT"])
            step = 9 if not thorough else 2
            for i in range(1, ntok, step):
                extra.append(("%s#c%d" % (name, i), dsltok.insert_comment(text, i, "own", "c%d" % i)))
            braces = [t for t in dsltok.tokenize(text) if t.text in "{}"]
            for b in braces[:: (3 if not thorough else 1)]:
                extra.append(("%s#drop@%d" % (name, b.line), text[:b.pos] + " " + text[b.pos + 1:]))
            for k, ch in enumerate("#$?"):
                at = braces[k % len(braces)]
                extra.append(("%s#badchar%s" % (name, ch), text[:at.pos] + ch + text[at.pos:]))
            extra.append(("%s#trailing-brace" % name, text + "}\n"))
            extra.append(("%s#leading-brace" % name, "{ " + text))
        canon = lib_reference(R.drv, docs.SECOND, tmp, 0)
        if canon.get("ok"):
            extra.append(("canonical", canon["result"]))
            extra.append(("canonical+newline", canon["result"] + "\n"))
            extra.append(("blank+canonical+blank", "\n\n  " + canon["result"] + "\n\n\t\n"))
        extra.append(("minimal", docs.MINIMAL))
        extra.append(("special", docs.SPECIAL))
        extra.append(("special-relaid", dsltok.relayout(docs.SPECIAL, "fewlines", 1)))
        # the same bytes must come out of all three entry points whatever the line ends are, also INSIDE documentation strings
        for name in ("multiline", "second"):
            extra.append((name + "-crlf", docs.DOCS[name].replace("\n", "\r\n")))
            extra.append((name + "-cr-in-doc", docs.DOCS[name].replace("`\n", "`\r\n", 3)))
        for label, t in extra:
            jobs.append(("fmt3", (label, t)))
        # 4. a longer life of the loaded library: every text asked twice in a row, valid and invalid interleaved, in ONE process
        ses = []
        pool = [("valid1", concrete["valid1"]), ("invalid", concrete["invalid"]), ("valid2", concrete["valid2"]), ("special", concrete["special"])] + \
               [x for x in extra if "#drop" in x[0] or "#c" in x[0]][:6]
        for label, t in pool:
            ses += [(label, t), (label, t)]
        ses += [pool[0], pool[1], pool[0], pool[1]]
        jobs.append(("libsession", ses))

        def one(job):
            kind, arg = job
            out = []
            if kind == "hist":
                cur = concrete[arg["start"]]
                # the library calls of one history are calls into ONE process (the library stays loaded)
                libtexts = [concrete[c["text"]] for c in arg["calls"] if c["op"] == "lib"]
                libres = lib_session(R.lib, [t.encode("utf-8", "surrogateescape") for t in libtexts], tmp, R.nxt()) if libtexts else []
                libres += [("abort", "library process died earlier in this history", None)] * (len(libtexts) - len(libres))
                for c in arg["calls"]:
                    t = cur if c["op"] in ("format-f", "compile-word", "compile-implicit") else concrete[c["text"]]
                    d = R.doc_event(t, c["op"].startswith("compile"))
                    e, site = R.call(c["op"], t, langs=sorted(c["langs"]), libres=libres.pop(0) if c["op"] == "lib" else None)
                    out.append((d, e, site, "hist:%s" % "+".join(x["op"] + ("(%s)" % x["text"] if x["op"] == "lib" else "") for x in arg["calls"]), c["text"]))
                    if c["op"] == "format-f" and e["outcome"] == "ok":
                        cur = e["after"]
            elif kind == "libsession":
                res = lib_session(R.lib, [t.encode("utf-8", "surrogateescape") for _, t in arg], tmp, R.nxt())
                res += [("abort", "library process died earlier in this session", None)] * (len(arg) - len(res))
                for k, ((label, t), lr) in enumerate(zip(arg, res)):
                    d = R.doc_event(t, False)
                    e, site = R.call("lib", t, libres=lr)
                    out.append((d, e, site, "libsession", "%s#%d" % (label, sum(1 for x in arg[:k] if x[0] == label))))
            elif kind == "compile":
                name, sub, word, sh = arg
                t = concrete[name]
                d = R.doc_event(t, True)
                e, site = R.call("compile-word" if word else "compile-implicit", t, langs=sub, dirshape=sh, gens=d.get("gens"))
                out.append((d, e, site, "compile:%s:%s:%s" % (",".join(sub), "word" if word else "implicit", sh), name))
            else:
                label, t = arg
                d = R.doc_event(t, False)
                for op in ("format-d", "format-f", "lib"):
                    e, site = R.call(op, t)
                    out.append((d, e, site, "fmt3", label))
            return out
        results = pmap(one, jobs, workers=16)
    events, meta = [], []
    for out in results:
        for d, e, site, group, label in out:
            events.append(d)
            meta.append(None)
            events.append(e)
            meta.append({"group": group, "label": label, "site": site, "lib_panic": d.get("lib_panic")})
    r, failing = validate(events)
    rep.tlc(r, traces=len(jobs))
    for i, (e, m) in enumerate(zip(events, meta), 1):
        if e["ev"] != "call":
            continue
        if m["lib_panic"]:
            continue        # the library itself panics on this text: no reference result exists (reported under C11)
        base = "%s|%s|%s" % (e["op"], m["group"], m["label"])
        fails = [f for f in failing.get(i, []) if f["kind"] not in ("panic", "abort", "hang")]
        if not fails:
            rep.case(base + "|ok", True)
        for f in fails:
            rep.case("%s|%s" % (base, f["kind"]), False, "%s on %s (%s): %s; exit=%s stdout[:60]=%r elsewhere=%s" % (
                e["op"], m["label"], m["group"], f["kind"], e["exit"], e["stdout"][:60], e["elsewhere"][:3]),
                {"op": e["op"], "text": e["text"], "langs": e["langs"], "dirshape": e.get("dirshape"), "kind": f["kind"],
                 "observed": {k: e[k] for k in ("exit", "stdout", "elsewhere", "nfiles")},
                 "how": "fin-protoc built from /repo; cwd = empty scratch directory"})
    rep.sample({"history": hists[5], "texts": "valid1 = docs.RICH, valid2 = docs.SECOND, invalid = RICH minus one '}'"})
    rep.assumptions += ["the library result is obtained in-process through the overlay driver (parser.FormatPacketDsl)",
                        "'prints exactly' = the result followed by the single newline a line-oriented CLI adds",
                        "'nowhere else' is observed by listing an otherwise empty working directory (HOME and TMPDIR redirected into it)"]
    return rep.finish("all %d call histories of Entry.tla (<= 2 calls) on concrete texts; compile x target subsets x {with, without the word} x "
                      "{relative, absolute, nested, pre-existing, named-like-a-subcommand} directories; format -d / -f / library on comment variants and invalid texts; "
                      "distinct = (entry point, group, text, outcome)" % len(hists), extra={"events": len(events)})


# ---------------------------------------------------------------------------------------------------------
# C11

def c11_inputs(thorough, rnd):
    """(label, text) -- every class of DESIGN 6 (C11)."""
    out = []
    for name, text in docs.DOCS.items():
        out.append((name, text))
    rich = docs.RICH
    toks = [t for t in dsltok.tokenize(rich) if t.type != "LINE_COMMENT"]
    step = 1 if thorough else 4
    # token-level mutations expressible in the spec: Truncate(k), DropToken(k), DupToken(k)
    for k in range(0, len(toks), step):
        t = toks[k]
        out.append(("truncate@%s" % t.type, rich[:t.pos]))
        out.append(("drop@%s" % t.type, rich[:t.pos] + rich[t.pos + len(t.text):]))
        out.append(("dup@%s" % t.type, rich[:t.pos] + t.text + " " + rich[t.pos:]))
    # every optional grammar element absent / present (hand-written minimal forms)
    opt = {
        "empty": "", "ws-only": " \n\t\n", "comment-only": "// only a comment\n", "comment-no-nl": "// c",
        "no-root": "packet P { u8 a, }\n", "root-empty": "root packet P {\n}\n",
        "options-empty": "options {\n}\nroot packet P { u8 a, }\n",
        "meta-no-doc": "MetaData M { u8 a, }\nroot packet P { a, }\n",
        "meta-ref-no-doc": "MetaData M { u8 a `d`, a b, }\nroot packet P { b, }\n",
        # a MetaData entry that refers to an entry that does not exist (or comes later), used by a field
        "meta-ref-undeclared": "MetaData M { Nope b `d`, }\nroot packet P { b, u8 x, }\n",
        "meta-ref-forward": "MetaData M { a b `d`, u8 a `d`, }\nroot packet P { b, a, }\n",
        "meta-ref-undeclared-len": "MetaData M { Nope L `d`, }\nroot packet P { L @lengthOf(B), B, }\npacket B { u8 x, }\n",
        "pad-no-char": "root packet P { @leftPad() char[3] x, }\n",
        "pad-on-scalar": "root packet P { @leftPad('0') u8 x, }\n",
        "pad-on-string": "root packet P { @rightPad(' ') string x, }\n",
        "tag-only": "root packet P { @tag(1) u8 x, }\n",
        "len-no-type": "root packet P { L @lengthOf(B), B, }\npacket B { u8 x, }\n",
        "ck-no-type": 'root packet P { u8 a, C @calculatedFrom("VSUM8"), }\n',
        "match-no-comma": "root packet P { u8 k, match k as b { 1 : A 2 : A }, }\npacket A { u8 x, }\n",
        "match-empty-key-list": "root packet P { u8 k, match k as b { [1] : A, }, }\npacket A { u8 x, }\n",
        "inline-empty-like": "root packet P { In { u8 a, }, }\n",
        "inline-named-like-packet": "root packet P { A { u8 a, }, A, }\npacket A { u8 x, }\n",
        "padleft-only-fixed-key": "options { FixedStringPadFromLeft = true; }\nroot packet P { char[4] k, match k as b { \"AB\" : A, }, }\npacket A { u8 x, }\n",
        "padleft-false-only": "options { FixedStringPadFromLeft = false; }\nroot packet P { char[4] k, zchar[3] z, match k as b { \"AB\" : A, }, }\npacket A { u8 x, }\n",
        "inline-match": "root packet P { In { u8 k, match k as b { 1 : A, [2, 3] : A, }, u8 t, }, }\npacket A { u8 x, }\n",
        "inline-two-matches": "root packet P { In { u8 k, u8 j, match k as b { 1 : A, }, match j as c { 1 : A, }, }, }\npacket A { u8 x, }\n",
        "self-ref": "root packet P { P, }\n",
        "mutual-ref": "root packet P { Q, }\npacket Q { P, }\n",
        "obj-undeclared": "root packet P { Nope n, }\n",
        "char-zero": "root packet P { char[0] a, zchar[0] b, }\n",
        "huge-char": "root packet P { char[99999999999999999999] a, }\n",
        "huge-key": "root packet P { u8 k, match k as b { 99999999999999999999999 : A, }, }\npacket A { u8 x, }\n",
        "dup-root": "root packet P { u8 a, }\nroot packet Q { u8 b, }\n",
        "keyword-names": "root packet packet { u8 root, }\n",
        "unicode-ident": "root packet Pé { u8 a, }\n",
        "string-unterminated": 'options { JavaPackage = "abc\n}\nroot packet P { u8 a, }\n',
        "doc-unterminated": "root packet P { u8 a `doc, }\n",
        "crlf": "root packet P {\r\n    u8 a,\r\n}\r\n",
        "nul-byte": "root packet P { u8 a\x00, }\n",
        "only-options": 'options { GoPackage = "x"; }\n',
        "lenof-in-sub": "root packet P { B, }\npacket B { u16 l @lengthOf(c), A c, }\npacket A { u8 x, }\n",
        "match-key-is-match": "root packet P { u8 k, match k as b { 1 : A, }, match b as c { 1 : A, }, }\npacket A { u8 x, }\n",
        "match-key-later": "root packet P { match k as b { 1 : A, }, u8 k, }\npacket A { u8 x, }\n",
        "len-target-scalar": "root packet P { u16 l @lengthOf(x), u32 x, }\n",
        "len-target-before": "root packet P { A a, u16 l @lengthOf(a), }\npacket A { u8 x, }\n",
        "repeat-match-like": "root packet P { u8 k, repeat A, match k as b { 1 : A, }, }\npacket A { u8 x, }\n",
        "meta-typed-len": "MetaData M { u16 L `d`, }\nroot packet P { L @lengthOf(b), A b, }\npacket A { u8 x, }\n",
        # identifiers at the edges of the IDENTIFIER rule ([a-zA-Z_][a-zA-Z_0-9]*): nothing but underscores, leading / trailing ones
        "ident-underscore-fields": "root packet P { u8 _ `r`, char[4] __, u16 _1, u8 a_, }\n",
        "ident-underscore-packets": "root packet _ { u8 a, __ b, }\npacket __ { u8 _, }\n",
        "ident-underscore-meta": "MetaData _ { u8 _m `d`, _m __ `d`, }\nroot packet P { _m, __, }\n",
        # MetaData reference entries that can never get a type: a cycle, an entry naming itself, a reference to a reference
        # whose own target does not exist
        "meta-alias-cycle": "MetaData M { A B `d`, B A `d`, }\nroot packet P { A, }\n",
        "meta-alias-self": "MetaData M { X X `d`, }\nroot packet P { X, }\n",
        "meta-alias-of-dangling-alias": "MetaData M { Amount Price `d`, Decimal Amount `d`, }\nroot packet P { Price, }\n",
        "option-value-forms": "options { A = u8; B = \"s\"; C = 12; D = '0'; E = true; F = char[4]; G = string }\nroot packet P { u8 a, }\n",
    }
    out += sorted(opt.items())
    # deep nesting (inline objects) and long inputs
    for depth in ((50, 300) if not thorough else (50, 300, 2000)):
        out.append(("deep-inline-%d" % depth, "root packet P { " + "In { " * depth + "u8 a, " + "}, " * depth + "}\n"))
    out.append(("many-fields", "root packet P {\n" + "".join("    u8 f%d,\n" % i for i in range(3000)) + "}\n"))
    out.append(("long-list", "root packet P { u8 k, match k as b { [" + ", ".join(str(i) for i in range(3000)) + "] : A, }, }\npacket A { u8 x, }\n"))
    # seeded byte-level mutations / binary strings (outside TLC's reach; declared as such)
    n = 40 if not thorough else 400
    for i in range(n):
        b = bytearray(rich.encode())
        for _ in range(rnd.randint(1, 6)):
            pos = rnd.randrange(len(b))
            mode = rnd.random()
            if mode < 0.4:
                b[pos] = rnd.randrange(256)
            elif mode < 0.7:
                del b[pos:pos + rnd.randint(1, 20)]
            else:
                b[pos:pos] = bytes(rnd.randrange(256) for _ in range(rnd.randint(1, 8)))
        out.append(("bytemut", b.decode("utf-8", "surrogateescape")))
    for i in range(5 if not thorough else 40):
        out.append(("binary", bytes(rnd.randrange(256) for _ in range(rnd.randint(1, 300))).decode("utf-8", "surrogateescape")))
    return out


def check_c11(tier):
    rep = Report("C11", tier, "exploration")
    thorough = tier == "thorough"
    hists = mc_entry(rep)
    rnd = random.Random(seed() + 11)
    inputs = c11_inputs(thorough, rnd)
    # semantically ill-formed programs: every fault case of Validate.tla
    g = tlc.run_tlc("Validate", "GenFaults.cfg", workers=1, timeout=900)
    tlc.require_ok(g, "Validate.tla")
    rep.tlc(g)
    for c in g.testcases:
        inputs.append(("fault:%s" % c["fault"]["class"], dsl.render(c["prog"])))
    with Scratch() as tmp:
        R = Runner(tmp)

        jobs = []
        for label, t in inputs:
            nul = "\x00" in t
            for op in ("format-d", "format-f", "lib", "compile-implicit"):
                if op == "format-d" and (t == "" or nul or len(t) > 100000):
                    continue        # an empty -d is an absent flag; argv cannot carry NUL / very long texts
                if op == "lib" and nul:
                    continue        # a C string ends at the first NUL
                jobs.append((label, t, op))

        def one(job):
            label, t, op = job
            e, site = R.call(op, t, langs=LANGS if op.startswith("compile") else ())
            return [(label, op, e, site)]
        results = pmap(one, jobs, workers=16)
    events, meta = [], []
    for out in results:
        for label, op, e, site in out:
            events.append({"ev": "doc", "text": "", "valid": False, "lib_ok": False, "lib_result": "", "lib_err": "", "gens": {"none": {"none": ""}}})
            meta.append(None)
            e = dict(e)
            e["text"] = ""          # the text itself is irrelevant for C11 (and may not be valid JSON text)
            e["stdout"] = ""
            e["before"] = e["after"] = e["ret"] = ""
            events.append(e)
            meta.append({"label": label, "site": site})
    r, failing = validate(events)
    rep.tlc(r, traces=len(inputs))
    k = 0
    for out in results:
        for label, op, e, site in out:
            k += 2
            dead = [f for f in failing.get(k, []) if f["kind"] in ("panic", "abort", "hang")]
            if not dead:
                rep.case("%s|%s|terminates" % (op, label if not label.startswith(("bytemut", "binary")) else label), True)
                continue
            # a panic is identified by its site; a hang has none: it is identified by the INPUT (one known hang must not
            # hide another input that never terminates)
            sig = "%s|%s|%s" % (op, dead[0]["kind"], site if dead[0]["kind"] != "hang" else label)
            rep.case(sig, False, "%s %s at %s on input '%s'" % (op, dead[0]["kind"], site, label),
                     {"op": op, "input_label": label, "text": next(t for (l2, t) in inputs if l2 == label)[:3000], "site": site,
                      "how": "fin-protoc format -d / format -f / compile with all outputs; libpacketdsl.so FormatPacketDslExport in a child process"})
    rep.sample({"inputs": [l for l, _ in inputs[:12]], "entry_points": ["format -d", "format -f", "FormatPacketDslExport", "compile (6 targets)"]})
    rep.assumptions += ["byte-level mutations and binary strings are seeded (VERIF_SEED); their signatures are at panic-site granularity",
                        "hang = no termination within 150 s (240 s for compile): generous on purpose, a loaded machine must not produce a false hang"]
    return rep.finish("every document / token mutation (truncate, drop, duplicate at every %s token) / optional-element form / Validate.tla fault "
                      "case / deep nesting / seeded byte mutation through format -d, format -f, the C library and compile; outcome validated by TLC "
                      "against Entry.tla (only result | diagnostic are outcomes); distinct = (entry point, input class) and, for failures, (entry point, panic site)"
                      % ("" if thorough else "4th"), extra={"inputs": len(inputs)})
