#!/usr/bin/env python3
"""Validates MANIFEST.json and evidence/*.json against the schemas (needs jsonschema: run with python3-vt)."""
import glob, json, sys
import jsonschema
ok = True
m = json.load(open('/verif/MANIFEST.json'))
try:
    jsonschema.validate(m, json.load(open('/root/.vp/MANIFEST.schema.json'))); print('MANIFEST ok')
except jsonschema.ValidationError as e:
    ok = False; print('MANIFEST INVALID', e.message)
es = json.load(open('/root/.vp/EVIDENCE.schema.json'))
for p in sorted(glob.glob('/verif/evidence/*.json')):
    try:
        jsonschema.validate(json.load(open(p)), es); print(p, 'ok')
    except jsonschema.ValidationError as e:
        ok = False; print(p, 'INVALID', e.message[:300])
sys.exit(0 if ok else 1)
