"""verif.py replay <path>: re-run the check that produced a replay bundle against the current tree and say
whether that exact cell still fails.  Exit 1 (and a VIOLATION line) if it does, 0 if it no longer fails,
2 on infrastructure failure.  The bundle itself holds the concrete input (DSL text, message, history,
expected vs observed) for manual reproduction."""
import json
import os
import subprocess
import sys


def main(path):
    try:
        b = json.load(open(path))
    except (OSError, ValueError) as e:
        print("cannot read replay bundle:", e)
        return 2
    pid, sig, tier = b["property"], b["signature"], b.get("tier", "quick")
    print("replaying %s cell %s (tier %s)" % (pid, sig, tier))
    print("what:", b.get("what"))
    env = dict(os.environ, VERIF_SEED=str(b.get("seed", 0)))
    here = os.path.dirname(os.path.abspath(__file__))
    r = subprocess.run([sys.executable, os.path.join(here, "verif.py"), "check", pid, "--tier", tier], env=env, capture_output=True, text=True)
    if r.returncode == 2:
        print(r.stderr[-1500:])
        return 2
    still = any(sig in line for line in r.stdout.splitlines() if "signature:" in line or line.startswith("KNOWN-FINDING"))
    if still:
        print("VIOLATION property=%s replay=%s" % (pid, path))
        return 1
    print("cell no longer fails on the current tree")
    return 0
