#!/usr/bin/env python3
"""Test bench for the Lua/Wireshark target:
    python3 harness/try_lua.py [sample-id ...] [-v] [--strict] [--thorough] [--keep DIR]
For each sample program of samples.py: render the DSL, compile it with the real fin-protoc, load the emitted
dissector with harness/lua_interp.py + lua_wireshark.py, dissect wire_ref.layout(msg) for the messages of
wire_ref.messages, and compare the recorded field adds (kind "field") with wire_ref.segments (leaf "body" parts,
matched by offset/len in order).  Prints per sample: parse ok?, run errors, first mismatch."""
import os
import sys
import time

sys.path.insert(0, os.path.dirname(os.path.abspath(__file__)))
import codec  # noqa: E402
import common  # noqa: E402
import dsl  # noqa: E402
import lang_lua  # noqa: E402
import samples  # noqa: E402
import wire_ref  # noqa: E402


def compare(adds, segs):
    """-> None when the field adds equal the expected body segments, else a description of the first mismatch."""
    got = [a for a in adds if a["kind"] == "field"]
    exp = [s for s in segs if s["part"] == "body"]
    for i in range(max(len(got), len(exp))):
        g = got[i] if i < len(got) else None
        e = exp[i] if i < len(exp) else None
        if g is None:
            return "field #%d missing: expected %s at [%d,+%d] (%d of %d fields added)" % (i, e["name"], e["off"], e["len"], len(got), len(exp))
        if e is None:
            return "extra field #%d: %s (%s) at [%d,+%d]" % (i, g["name"], g["abbr"], g["off"], g["len"])
        if g["off"] != e["off"] or g["len"] != e["len"]:
            return "field #%d: dissector says %s (%s) at [%d,+%d], wire has %s at [%d,+%d]" % (
                i, g["name"], g["abbr"], g["off"], g["len"], e["name"], e["off"], e["len"])
        if g["name"] != e["name"]:
            return "field #%d at [%d,+%d]: dissector names it %s, wire has %s" % (i, g["off"], g["len"], g["name"], e["name"])
    return None


def main():
    args = [a for a in sys.argv[1:] if not a.startswith("-")]
    verbose = "-v" in sys.argv
    strict = "--strict" in sys.argv
    thorough = "--thorough" in sys.argv
    keep = None
    if "--keep" in sys.argv:
        keep = sys.argv[sys.argv.index("--keep") + 1]
        args = [a for a in args if a != keep]
    want = set(args)
    cli = common.build_cli()
    progs = [p for p in samples.SAMPLES if not want or p["id"] in want]
    bad = 0
    with common.Scratch() as tmp:
        root = keep or tmp
        for p in progs:
            pid = p["id"]
            comp = codec.compile_prog(cli, p, os.path.join(root, pid), targets=["lua"])
            if comp["rc"] != 0:
                print("%-16s COMPILE rc=%s %s" % (pid, comp["rc"], comp["out"][-300:]))
                bad += 1
                continue
            msgs = wire_ref.messages(p, 12, 17, thorough)
            rootname = dsl.root(p)["name"]
            ops, exp = [], {}
            for i, (label, m) in enumerate(msgs):
                b = wire_ref.layout(p, rootname, m)
                ops.append({"op": "dissect", "id": "m%d" % i, "bytes": b})
                exp["m%d" % i] = (label, wire_ref.segments(p, rootname, m), len(b))
            case = {"prog": p, "ops": ops, "strict": strict}
            t0 = time.time()
            res = lang_lua.PLUGIN._session(comp["dirs"]["lua"], case, os.path.join(root, pid, "scratch_lua"))
            dt = time.time() - t0
            errs, mism, okn = {}, [], 0
            for ev in res["events"]:
                label, segs, nbytes = exp[ev["id"]]
                if not ev["ok"]:
                    errs.setdefault(ev["err"], []).append(label)
                    continue
                d = compare(ev["adds"], segs)
                if d is None:
                    okn += 1
                else:
                    mism.append((label, d))
            status = "OK  " if res["build"]["ok"] and not errs and not mism and not res.get("unsupported") and not res["crash"] else "FAIL"
            if status == "FAIL":
                bad += 1
            print("%-16s %s parse/load=%s msgs=%d match=%d errors=%d mismatches=%d  (%.3fs, max %d bytes)%s" % (
                pid, status, res["build"]["ok"], len(ops), okn, sum(len(v) for v in errs.values()), len(mism), dt,
                max(e[2] for e in exp.values()), "  UNSUPPORTED: " + res["unsupported"] if res.get("unsupported") else ""))
            if res["crash"]:
                print("    CRASH (interpreter):", res["crash"])
            if not res["build"]["ok"] or verbose:
                print("    build log:", res["build"]["log"])
            for e, labels in errs.items():
                print("    run error x%d: %s   [%s]" % (len(labels), e, ", ".join(labels[:4]) + (" ..." if len(labels) > 4 else "")))
            if mism:
                print("    first mismatch [%s]: %s" % mism[0])
                if verbose:
                    for lab, d in mism[1:]:
                        print("    mismatch [%s]: %s" % (lab, d))
            for n in res.get("api_notes", []):
                print("    api-note:", n)
    return 1 if bad else 0


if __name__ == "__main__":
    sys.exit(main())
