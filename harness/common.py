"""Shared infrastructure: paths, Go toolchain resolution, builds of fin-protoc from /repo's
working tree (CLI, overlay driver, C library), subprocess helpers, scratch directories.

Nothing here decides a verdict.  Exit-code convention used by every check:
  0  property held on everything explored (known findings aside)
  1  at least one VIOLATION line printed
  2  infrastructure failure (tool crash, timeout, vacuous coverage ...) -- never a violation
"""
import hashlib
import json
import os
import shutil
import subprocess
import sys
import tempfile
import time

VERIF = os.path.dirname(os.path.dirname(os.path.abspath(__file__)))
REPO = os.environ.get("VERIF_REPO", "/repo")
WORK = os.path.join(VERIF, ".work")
SPEC = os.path.join(VERIF, "spec")
DRV = os.path.join(VERIF, "drv")
RUNTIMES = os.path.join(VERIF, "runtimes")
EVIDENCE = os.path.join(VERIF, "evidence")
REPLAYS = os.path.join(VERIF, "replays")
NCPU = os.cpu_count() or 4


class Infra(Exception):
    """Infrastructure failure -> exit 2."""


def seed():
    try:
        return int(os.environ.get("VERIF_SEED", "0"))
    except ValueError:
        return 0


# --------------------------------------------------------------------------------------------
# Go toolchain

_GO = None


def go_env():
    """Return (go_binary, env) able to build /repo offline whatever the caller's environment."""
    global _GO
    if _GO:
        return _GO
    cands = []
    modcache = os.path.expanduser("~/go/pkg/mod")
    cands.append(os.path.join(modcache, "golang.org/toolchain@v0.0.1-go1.24.2.linux-amd64/bin/go"))
    for name in ("go1.26", "go1.26.8"):
        p = shutil.which(name)
        if p:
            cands.append(p)
    cands.append(os.path.join(modcache, "golang.org/toolchain@v0.0.1-go1.26.0.linux-amd64/bin/go"))
    env = dict(os.environ)
    env.update({"GOFLAGS": "-mod=mod", "GOPROXY": "off", "GOTOOLCHAIN": "local", "GOSUMDB": "off",
                "GONOSUMDB": "*", "GONOSUMCHECK": "1", "CGO_ENABLED": env.get("CGO_ENABLED", "1")})
    env.pop("GOROOT", None)
    for c in cands:
        if c and os.path.exists(c):
            try:
                out = subprocess.run([c, "version"], env=env, capture_output=True, text=True, timeout=60)
                if out.returncode == 0:
                    _GO = (c, env, out.stdout.strip())
                    return _GO
            except Exception:
                continue
    raise Infra("no usable Go toolchain found")


def run(cmd, cwd=None, env=None, timeout=600, input=None, check=False, text=True):
    """subprocess.run wrapper that turns a timeout into a result with rc=-9 and .timed_out."""
    t0 = time.time()
    try:
        r = subprocess.run(cmd, cwd=cwd, env=env, timeout=timeout, input=input,
                           capture_output=True, text=text, errors="replace" if text else None)
        r.timed_out = False
    except subprocess.TimeoutExpired as e:
        r = subprocess.CompletedProcess(cmd, -9, e.stdout or ("" if text else b""), e.stderr or ("" if text else b""))
        if text:
            if isinstance(r.stdout, bytes):
                r.stdout = r.stdout.decode("utf-8", "replace")
            if isinstance(r.stderr, bytes):
                r.stderr = r.stderr.decode("utf-8", "replace")
        r.timed_out = True
    r.wall = time.time() - t0
    if check and r.returncode != 0:
        raise Infra("command failed (%s): %s\n%s\n%s" % (r.returncode, " ".join(map(str, cmd)), r.stdout[-2000:], r.stderr[-2000:]))
    return r


# --------------------------------------------------------------------------------------------
# hashing

def sha(data):
    if isinstance(data, str):
        data = data.encode()
    return hashlib.sha256(data).hexdigest()


def tree_hash(root, skip=(".git",)):
    """sha256 over every file under root (names and contents), skipping `skip` directories."""
    h = hashlib.sha256()
    for d, dirs, files in os.walk(root):
        dirs[:] = sorted(x for x in dirs if x not in skip)
        for f in sorted(files):
            p = os.path.join(d, f)
            try:
                with open(p, "rb") as fh:
                    b = fh.read()
            except OSError:
                continue
            h.update(os.path.relpath(p, root).encode())
            h.update(b"\0")
            h.update(hashlib.sha256(b).digest())
    return h.hexdigest()


_REPO_HASH = None


def repo_hash():
    global _REPO_HASH
    if _REPO_HASH is None:
        _REPO_HASH = tree_hash(REPO)
    return _REPO_HASH


# --------------------------------------------------------------------------------------------
# builds of fin-protoc from the working tree

def _bin_dir():
    # one directory per (repo tree state, driver source); shared by the checks invoked on one state
    key = sha(repo_hash() + tree_hash(DRV))[:20]
    d = os.path.join(WORK, "bin", key)
    os.makedirs(d, exist_ok=True)
    # keep at most 6 old build dirs
    parent = os.path.dirname(d)
    try:
        olds = sorted((os.path.getmtime(os.path.join(parent, x)), x) for x in os.listdir(parent) if x != key)
        for _, x in olds[:-5]:
            shutil.rmtree(os.path.join(parent, x), ignore_errors=True)
    except OSError:
        pass
    return d


def _locked_build(target, builder):
    """Build `target` once even if several checks start concurrently."""
    import fcntl
    if os.path.exists(target):
        return target
    lock = target + ".lock"
    with open(lock, "w") as lf:
        fcntl.flock(lf, fcntl.LOCK_EX)
        if not os.path.exists(target):
            tmp = target + ".tmp%d" % os.getpid()
            builder(tmp)
            os.replace(tmp, target)
    return target


def build_cli():
    """go build ./cmd from /repo's current working tree. Returns path of the binary."""
    go, env, _ = go_env()
    target = os.path.join(_bin_dir(), "fin-protoc")

    def b(tmp):
        run([go, "build", "-o", tmp, "./cmd"], cwd=REPO, env=env, timeout=900, check=True)
    return _locked_build(target, b)


def build_driver():
    """Overlay driver: /verif/drv/main.go compiled *virtually* inside /repo's module.
    Returns path or None when the driver does not build (internal API changed) -- callers fall back
    to the CLI."""
    go, env, _ = go_env()
    target = os.path.join(_bin_dir(), "verifdrv")
    fail = target + ".failed"
    if os.path.exists(fail):
        return None

    def b(tmp):
        ov = {"Replace": {os.path.join(REPO, "internal/zz_verifdrv/main.go"): os.path.join(DRV, "main.go")}}
        ovp = tmp + ".overlay.json"
        with open(ovp, "w") as f:
            json.dump(ov, f)
        try:
            r = run([go, "build", "-overlay", ovp, "-o", tmp, "./internal/zz_verifdrv"], cwd=REPO, env=env, timeout=900)
        finally:
            os.unlink(ovp)
        if r.returncode != 0:
            with open(fail, "w") as f:
                f.write(r.stdout + r.stderr)
            raise Infra("overlay driver does not build:\n" + (r.stdout + r.stderr)[-3000:])
    try:
        return _locked_build(target, b)
    except Infra as e:
        sys.stderr.write("NOTE: %s\n" % e)
        return None


def build_lib():
    """c-shared library (libpacketdsl.so) from the working tree."""
    go, env, _ = go_env()
    target = os.path.join(_bin_dir(), "libpacketdsl.so")

    def b(tmp):
        run([go, "build", "-buildmode=c-shared", "-o", tmp, "./cmd"], cwd=REPO, env=env, timeout=900, check=True)
        h = tmp[:-len(".so")] + ".h" if tmp.endswith(".so") else None
        for extra in (tmp + ".h", os.path.splitext(tmp)[0] + ".h"):
            if os.path.exists(extra):
                os.unlink(extra)
    return _locked_build(target, b)


# --------------------------------------------------------------------------------------------
# scratch

class Scratch:
    """mkdtemp under $TMPDIR, removed on exit."""

    def __init__(self, prefix="verif-"):
        self.prefix = prefix

    def __enter__(self):
        self.path = tempfile.mkdtemp(prefix=self.prefix)
        return self.path

    def __exit__(self, *a):
        shutil.rmtree(self.path, ignore_errors=True)


def write(path, data):
    os.makedirs(os.path.dirname(path), exist_ok=True)
    mode = "wb" if isinstance(data, bytes) else "w"
    with open(path, mode) as f:
        f.write(data)


def read(path, binary=False):
    with open(path, "rb" if binary else "r") as f:
        return f.read()


def pmap(fn, items, workers=None):
    """Thread-pool map (work is subprocess-bound)."""
    from concurrent.futures import ThreadPoolExecutor
    items = list(items)
    if not items:
        return []
    with ThreadPoolExecutor(max_workers=workers or NCPU) as ex:
        return list(ex.map(fn, items))
