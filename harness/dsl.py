"""Abstract program (the record TLC emits, see PROTOCOL.md) -> PacketDSL text, plus helpers.

The renderer only lays tokens out; it decides nothing.  `spelling` selects among the
meaning-preserving alternatives of C08 (all default to the canonical spelling)."""

F0 = {"k": "", "name": "", "ty": "", "rep": False, "n": 0, "pad": "none", "key": "", "pairs": [],
      "tgt": "", "alg": "", "fs": []}

PAD_ATTR = {"l0": "@leftPad('0')", "lsp": "@leftPad(' ')", "lnul": "@leftPad('\\x00')", "ldef": "@leftPad()",
            "r0": "@rightPad('0')", "rsp": "@rightPad(' ')", "rnul": "@rightPad('\\x00')", "rdef": "@rightPad()"}
LONG = {"u8": "uint8", "u16": "uint16", "u32": "uint32", "u64": "uint64", "i8": "int8", "i16": "int16",
        "i32": "int32", "i64": "int64", "f32": "float32", "f64": "float64"}
WIDTH = {"u8": 1, "i8": 1, "char": 1, "u16": 2, "i16": 2, "u32": 4, "i32": 4, "f32": 4, "u64": 8, "i64": 8, "f64": 8}

PKG_OPTS = [("GoPackage", '"msg"'), ("GoModule", '"example.com/msg"'), ("JavaPackage", '"com.x.y"')]


def field(**kw):
    f = dict(F0)
    f.update(kw)
    return f


def _ty(t, sp):
    return LONG[t] if sp.get("long") and t in LONG else t


_ATTRS = None


def render_field(f, ind, sp, path):
    """spelling "tag": "first" / "last" writes an (orthogonal) @tag(7) attribute in front of / behind the other attributes"""
    text = _render_field(f, ind, sp, path)
    s = sp.get(path, {}) if isinstance(sp.get(path), dict) else {}
    s = dict(sp.get("*", {}), **s)
    if s.get("tag") and f["k"] not in ("inl", "match"):
        import re
        m = re.match(r"^(\s*)((?:@\w+\((?:'[^']*'|\"[^\"]*\"|[^)']*)\)\s+)*)(.*)$", text, re.S)
        if m:
            text = m.group(1) + ("@tag(7) " + m.group(2) if s["tag"] == "first" else m.group(2) + "@tag(7) ") + m.group(3)
    return text


def _render_field(f, ind, sp, path):
    k = f["k"]
    rep = "repeat " if f["rep"] else ""
    s = sp.get(path, {}) if isinstance(sp.get(path), dict) else {}
    s = dict(sp.get("*", {}), **s)
    doc = " `%s`" % s["doc"] if s.get("doc") else ""
    sep = "" if s.get("nosep") else ","
    if k in ("int", "float", "char"):
        return "%s%s%s %s%s%s" % (ind, rep, _ty(f["ty"], s), f["name"], doc, sep)
    if k == "fix":
        pad = f["pad"]
        if pad == "z":
            if s.get("zexplicit"):
                return "%s@rightPad('\\x00') %schar[%d] %s%s%s" % (ind, rep, f["n"], f["name"], doc, sep)
            return "%s%szchar[%d] %s%s%s" % (ind, rep, f["n"], f["name"], doc, sep)
        attr = PAD_ATTR[pad] + " " if pad in PAD_ATTR else ""
        if pad == "none" and s.get("defpad"):
            attr = "@rightPad(' ') "
        return "%s%s%schar[%d] %s%s%s" % (ind, attr, rep, f["n"], f["name"], doc, sep)
    if k == "dyn":
        return "%s%s%s %s%s%s" % (ind, rep, "char[]" if s.get("charbr") else "string", f["name"], doc, sep)
    if k == "obj":
        if f["name"] == f["ty"] and not s.get("explicitname"):
            return "%s%s%s%s%s" % (ind, rep, f["ty"], doc, sep)
        return "%s%s%s %s%s%s" % (ind, rep, f["ty"], f["name"], doc, sep)
    if k == "meta":
        attr = PAD_ATTR[f["pad"]] + " " if f["pad"] in PAD_ATTR else ""
        if f["name"] == f["ty"]:
            return "%s%s%s%s%s%s" % (ind, attr, rep, f["ty"], doc, sep)
        return "%s%s%s%s %s%s%s" % (ind, attr, rep, f["ty"], f["name"], doc, sep)
    if k == "inl":
        # the grammar admits no attribute in front of a field of an inline object: the prefixed spelling stops here
        spin = dict(sp)
        if isinstance(sp.get("*"), dict):
            spin["*"] = {a: b for a, b in sp["*"].items() if a not in ("prefixattr", "tag")}
        inner = "\n".join(render_field(g, ind + "    ", spin, path + "." + g["name"]) for g in f["fs"])
        return "%s%s%s {\n%s\n%s}%s" % (ind, rep, f["name"], inner, ind, ",")
    if k == "match":
        lines = []
        for p in f["pairs"]:
            lits = p["lits"]
            if s.get("expand"):
                for l in lits:
                    lines.append("%s    %s : %s," % (ind, l, p["pkt"]))
            elif len(lits) == 1 and not p.get("aslist"):
                lines.append("%s    %s : %s," % (ind, lits[0], p["pkt"]))
            else:
                lines.append("%s    [%s] : %s," % (ind, ", ".join(lits), p["pkt"]))
        if s.get("nopaircomma"):
            lines = [x.rstrip(",") for x in lines]
        return "%smatch %s as %s {\n%s\n%s}," % (ind, f["key"], f["name"], "\n".join(lines), ind)
    if k in ("len", "ck") and f.get("pad") == "notype":
        # no type written: the compiler takes it from the MetaData entry named like the field
        attr = "@lengthOf(%s)" % f["tgt"] if k == "len" else '@calculatedFrom("%s")' % f["alg"]
        if s.get("prefixattr"):
            return "%s%s %s%s%s" % (ind, attr, f["name"], doc, sep)
        return "%s%s %s%s%s" % (ind, f["name"], attr, doc, sep)
    if k == "len":
        if s.get("prefixattr"):
            return "%s@lengthOf(%s) %s %s%s%s" % (ind, f["tgt"], _ty(f["ty"], s), f["name"], doc, sep)
        return "%s%s %s @lengthOf(%s)%s%s" % (ind, _ty(f["ty"], s), f["name"], f["tgt"], doc, sep)
    if k == "ck":
        if s.get("prefixattr"):
            return '%s@calculatedFrom("%s") %s %s%s%s' % (ind, f["alg"], _ty(f["ty"], s), f["name"], doc, sep)
        return '%s%s %s @calculatedFrom("%s")%s%s' % (ind, _ty(f["ty"], s), f["name"], f["alg"], doc, sep)
    raise ValueError("unknown field kind %r" % k)


def render_meta_entry(e, sp):
    doc = " `%s`" % (e.get("doc") or "d")
    if e.get("ref"):
        return "    %s %s%s," % (e["ref"], e["name"], doc)
    k = e["k"]
    if k in ("int", "float", "char"):
        t = _ty(e["ty"], sp.get("*", {}))
    elif k == "fix":
        t = ("zchar[%d]" if e["pad"] == "z" else "char[%d]") % e["n"]
    elif k == "dyn":
        t = "string"
    else:
        raise ValueError("meta entry kind %r" % k)
    return "    %s %s%s," % (t, e["name"], doc)


def render(prog, spelling=None):
    """-> DSL text (one declaration per line, canonical)."""
    return render_lines(prog, spelling)[0]


def render_lines(prog, spelling=None, lead=0):
    """-> (text, sitemap) ; sitemap: site tuple -> 1-based line of the declaration's first token.
    Sites: ("xopt", k) ("meta", j) ("pkt", j) ("field", j, i) ("pair", j, i, q)  (1-based, as Validate.tla)."""
    sp = spelling or prog.get("spelling") or {}      # a program may carry the spelling it is to be written in
    o = prog["opts"]
    lines = ["// leading comment %d" % i for i in range(lead)]
    sites = {}

    def add(text, site=None):
        if site is not None:
            sites[site] = len(lines) + 1
        lines.extend(text.split("\n"))
    optl = []
    if o.get("pkgs", "set") != "omit":
        optl += [("    %s = %s;" % kv, None) for kv in PKG_OPTS]
    if o.get("le"):
        optl.append(("    LittleEndian = %s;" % o["le"], None))
    elif sp.get("defopts") or sp.get("defopt1") == 1:
        optl.append(("    LittleEndian = false;", None))
    if o.get("sp"):
        optl.append(("    StringPrefixLenType = %s;" % o["sp"], None))
    elif sp.get("defopts") or sp.get("defopt1") == 2:
        optl.append(("    StringPrefixLenType = u16;", None))
    if o.get("ap"):
        optl.append(("    ArrayPrefixLenType = %s;" % o["ap"], None))
    elif sp.get("defopts") or sp.get("defopt1") == 3:
        optl.append(("    ArrayPrefixLenType = u16;", None))
    if o.get("padleft"):
        optl.append(("    FixedStringPadFromLeft = %s;" % o["padleft"], None))
    elif sp.get("defopts") or sp.get("defopt1") == 4:
        optl.append(("    FixedStringPadFromLeft = false;", None))
    if o.get("padchar"):
        optl.append(("    FixedStringPadChar = %s;" % {"0": "'0'", "sp": "' '", "nul": "'\\x00'"}[o["padchar"]], None))
    for k, x in enumerate(prog.get("xopts") or [], 1):
        optl.append(("    %s = %s;" % (x[0], x[1]), ("xopt", k)))
    if sp.get("nosemi"):
        optl = [(t.rstrip(";"), s_) for t, s_ in optl]
    if optl:
        add("options {")
        for t, s_ in optl:
            add(t, s_)
        add("}")
    def metablock():
        if prog.get("metas"):
            add("MetaData M {")
            for j, e in enumerate(prog["metas"], 1):
                add(render_meta_entry(e, sp), ("meta", j))
            add("}")
    # the order of the top-level definitions is the author's choice: "metalast" writes the MetaData block BELOW the packets
    if not sp.get("metalast"):
        metablock()
    for j, p in enumerate(prog["pkts"], 1):
        add("%spacket %s {" % ("root " if p["root"] else "", p["name"]), ("pkt", j))
        for i, f in enumerate(p["fields"], 1):
            first = len(lines) + 1
            text = render_field(f, "    ", sp, p["name"] + "." + f["name"])
            add(text, ("field", j, i))
            if f["k"] == "inl":
                # the fields of an inline object, one line each behind the header line (sites of Validate.tla: nested)
                ln = first + 1
                for h, g in enumerate(f["fs"], 1):
                    sites[("nested", j, i, h)] = ln
                    ln += render_field(g, "", sp, p["name"] + "." + f["name"] + "." + g["name"]).count("\n") + 1
            if f["k"] == "match":
                # one line per pair (or per literal when expanded), after the header line
                ln = first + 1
                s_ = dict(sp.get("*", {}), **(sp.get(p["name"] + "." + f["name"], {}) if isinstance(sp.get(p["name"] + "." + f["name"]), dict) else {}))
                for q, pr in enumerate(f["pairs"], 1):
                    sites[("pair", j, i, q)] = ln
                    ln += len(pr["lits"]) if s_.get("expand") else 1
        add("}")
    if sp.get("metalast"):
        metablock()
    return "\n".join(lines) + "\n", sites


# ---------------------------------------------------------------------------------------------
# resolution helpers shared by the reference encoder and the message generator

def pkt(prog, name):
    for p in prog["pkts"]:
        if p["name"] == name:
            return p
    raise KeyError(name)


def root(prog):
    for p in prog["pkts"]:
        if p["root"]:
            return p
    raise KeyError("root")


def meta(prog, name):
    for e in prog["metas"]:
        if e["name"] == name:
            return e
    raise KeyError(name)


def res(prog, f):
    if f["k"] != "meta":
        return f
    e = meta(prog, f["ty"])
    if e.get("ref"):
        e = meta(prog, e["ref"])
    g = dict(f)
    g.update(k=e["k"], ty=e["ty"], n=e["n"], pad=f["pad"] if f["pad"] != "none" else e["pad"])
    return g


def cfg(prog):
    o = prog["opts"]
    return {"le": o.get("le") == "true",
            "sp": WIDTH[o["sp"]] if o.get("sp") else 2,
            "ap": WIDTH[o["ap"]] if o.get("ap") else 2,
            "padb": {"0": 48, "nul": 0}.get(o.get("padchar"), 32),
            "padl": o.get("padleft") == "true"}


def pad_of(prog, f):
    t = {"z": (0, False), "l0": (48, True), "lsp": (32, True), "lnul": (0, True), "ldef": (32, True),
         "r0": (48, False), "rsp": (32, False), "rnul": (0, False), "rdef": (32, False)}
    if f["pad"] in t:
        return t[f["pad"]]
    c = cfg(prog)
    return (c["padb"], c["padl"])
