"""Java language plug-in (see PROTOCOL.md section 5).

The emitted main sources (<outdir>/main/java/**.java) are compiled with one javac call against the reference
runtime (/verif/runtimes/java/rt: stand-ins for netty's ByteBuf / Unpooled / StringUtil and
com.finproto.codec); `build.ok` is the result of exactly that call (C07).  The reflection driver
(/verif/runtimes/java/drv/verif/Driver.java) then executes the case on the compiled classes.  The emitted
tests (<outdir>/test/java/**.java) are compiled separately, against the runtime plus a JUnit stand-in
(/verif/runtimes/java/junit), and run by verif.TestRunner (C17).

Shared artefacts (created by setup(), read-only afterwards): /verif/.work/rt/java/{classes,junit,drv}.
"""
import fcntl
import glob
import json
import os
import shutil

from common import RUNTIMES, WORK, Infra, run, write
from langs import Lang, parse_events, runtime_hash

SRC = os.path.join(RUNTIMES, "java")
RT = os.path.join(WORK, "rt", "java")
RT_CLASSES = os.path.join(RT, "classes")     # runtime: what the emitted main code may see
RT_JUNIT = os.path.join(RT, "junit")         # JUnit stand-in: only the emitted tests see it
RT_DRV = os.path.join(RT, "drv")             # driver + test runner (ours)
RT_CDS = os.path.join(RT, "javac.jsa")       # class-data-sharing archive of javac itself (start-up 0.9 s -> 0.5 s)

JVM = ["-Xmx512m", "-Xss1m", "-XX:+UseSerialGC", "-XX:TieredStopAtLevel=1", "-XX:-UsePerfData", "-Xshare:auto"]
JAVAC_JVM = ["-J" + x for x in JVM if not x.startswith("-Xss")]
JAVAC_OPTS = ["-proc:none", "-nowarn", "-encoding", "UTF-8"]


def javac():
    cds = ["-J-XX:SharedArchiveFile=" + RT_CDS] if os.path.exists(RT_CDS) else []
    return ["javac"] + JAVAC_JVM + cds + JAVAC_OPTS
MAX_RESTARTS = 25
MAX_TIMEOUTS = 2
RUN_TIMEOUT = 90          # seconds per driver process; an op normally takes milliseconds
STRINGY = ("fix", "dyn")


def _sources(root):
    return sorted(glob.glob(os.path.join(root, "**", "*.java"), recursive=True)) if os.path.isdir(root) else []


def _trim(text, n=1500):
    text = "\n".join(l for l in text.splitlines() if not l.startswith("WARNING conda") and not l.startswith("Note: ") and "[cds" not in l)
    return text[-n:]


# ---------------------------------------------------------------------------------------------
# null == empty for strings and lists (PROTOCOL section 4): Java decoders leave absent strings / lists null

def _res(prog, f):
    if f["k"] != "meta":
        return f
    e = next(x for x in prog["metas"] if x["name"] == f["ty"])
    if e.get("ref"):
        e = next(x for x in prog["metas"] if x["name"] == e["ref"])
    g = dict(f)
    g.update(k=e["k"], ty=e["ty"], n=e["n"])
    return g


def _norm_elem(prog, f, v):
    if not isinstance(v, dict):
        return v
    k = f["k"]
    if k in STRINGY and v.get("t") == "n":
        return {"t": "b", "b": []}
    if k == "obj" and v.get("t") == "o":
        return {"t": "o", "fs": _norm_fields(prog, _pkt(prog, f["ty"])["fields"], v.get("fs", []))}
    if k == "inl" and v.get("t") == "o":
        return {"t": "o", "fs": _norm_fields(prog, f["fs"], v.get("fs", []))}
    if k == "match" and v.get("t") == "m":
        p = _pkt(prog, v.get("pkt"))
        if p is not None:
            return {"t": "m", "pkt": v["pkt"], "fs": _norm_fields(prog, p["fields"], v.get("fs", []))}
    return v


def _pkt(prog, name):
    return next((p for p in prog["pkts"] if p["name"] == name), None)


def _norm_fields(prog, fields, vals):
    if len(fields) != len(vals):
        return vals
    out = []
    for f0, v in zip(fields, vals):
        f = _res(prog, f0)
        if f.get("rep"):
            if isinstance(v, dict) and v.get("t") == "n":
                out.append({"t": "l", "xs": []})
            elif isinstance(v, dict) and v.get("t") == "l":
                out.append({"t": "l", "xs": [_norm_elem(prog, f, x) for x in v.get("xs", [])]})
            else:
                out.append(v)
        else:
            out.append(_norm_elem(prog, f, v))
    return out


def normalise(prog, pktname, val):
    p = _pkt(prog, pktname)
    if p is None or not isinstance(val, dict) or val.get("t") != "o":
        return val
    return {"t": "o", "fs": _norm_fields(prog, p["fields"], val.get("fs", []))}


# ---------------------------------------------------------------------------------------------

class Java(Lang):
    name = "java"
    _tc = None

    def toolchain(self):
        if Java._tc is None:
            r = run(["javac", "-version"], timeout=60)
            v = [l for l in (r.stdout + r.stderr).splitlines() if l.strip() and not l.startswith("WARNING conda")]
            Java._tc = v[-1].strip() if v and r.returncode == 0 else "javac missing"
        return Java._tc

    # -- one-time build of the runtime, the JUnit stand-in and the driver -----------------------------
    def setup(self):
        stamp = os.path.join(RT, "stamp")
        want = runtime_hash("java") + "|" + self.toolchain()

        def fresh():
            try:
                return open(stamp).read() == want and all(os.path.isdir(d) for d in (RT_CLASSES, RT_JUNIT, RT_DRV))
            except OSError:
                return False
        if fresh():
            return
        os.makedirs(RT, exist_ok=True)
        with open(os.path.join(RT, "lock"), "w") as lf:
            fcntl.flock(lf, fcntl.LOCK_EX)
            if fresh():
                return
            if os.path.exists(stamp):
                os.unlink(stamp)
            steps = [(RT_CLASSES, "rt", []), (RT_JUNIT, "junit", []), (RT_DRV, "drv", [RT_CLASSES, RT_JUNIT])]
            for dst, sub, cp in steps:
                shutil.rmtree(dst, ignore_errors=True)
                os.makedirs(dst)
                srcs = _sources(os.path.join(SRC, sub))
                if not srcs:
                    raise Infra("java runtime sources missing under %s" % os.path.join(SRC, sub))
                cmd = ["javac"] + JAVAC_JVM + JAVAC_OPTS + ["-d", dst] + (["-cp", os.pathsep.join(cp)] if cp else []) + srcs
                r = run(cmd, timeout=600)
                if r.returncode != 0:
                    raise Infra("java reference runtime does not build (%s):\n%s" % (sub, (r.stdout + r.stderr)[-3000:]))
            # optional: archive javac's own classes (dynamic CDS); a missing / stale archive is simply not used
            if os.path.exists(RT_CDS):
                os.unlink(RT_CDS)
            tmpd = os.path.join(RT, "cds_tmp")
            shutil.rmtree(tmpd, ignore_errors=True)
            os.makedirs(tmpd)
            run(["javac"] + JAVAC_JVM + ["-J-XX:ArchiveClassesAtExit=" + RT_CDS] + JAVAC_OPTS
                + ["-d", tmpd, "-cp", os.pathsep.join([RT_CLASSES, RT_JUNIT])] + _sources(os.path.join(SRC, "drv")), timeout=600)
            shutil.rmtree(tmpd, ignore_errors=True)
            write(stamp, want)

    # -- build the emitted main sources, run the driver ---------------------------------------------
    def _compile(self, srcs, dst, cp):
        shutil.rmtree(dst, ignore_errors=True)
        os.makedirs(dst)
        return run(javac() + ["-d", dst, "-cp", os.pathsep.join(cp)] + srcs, timeout=600)

    def _session(self, outdir, case, scratch):
        self.setup()
        os.makedirs(scratch, exist_ok=True)
        srcs = _sources(os.path.join(outdir, "main", "java"))
        if not srcs:
            return {"build": {"ok": False, "log": "no main/java/**/*.java emitted"}, "events": [], "crash": None}
        classes = os.path.join(scratch, "classes")
        r = self._compile(srcs, classes, [RT_CLASSES])
        log = _trim((r.stdout + r.stderr).replace(outdir, "<out>"))
        if r.returncode != 0 or r.timed_out:
            return {"build": {"ok": False, "log": log or "javac exit %s" % r.returncode}, "events": [], "crash": None}
        casefile = os.path.join(scratch, "case_java.json")
        write(casefile, json.dumps(case))
        ops = case["ops"]
        cmd = ["java"] + JVM + ["-cp", os.pathsep.join([RT_DRV, RT_CLASSES, classes]), "verif.Driver", classes, casefile]
        events, crash, skip, restarts, timeouts = [], None, 0, 0, 0
        while skip < len(ops):
            if restarts > MAX_RESTARTS or timeouts > MAX_TIMEOUTS:
                for op in ops[skip:]:
                    events.append(self._crash_event(op, "driver restarted %d times (%d timeouts); not run" % (restarts, timeouts)))
                break
            r = run(cmd + ["--skip", str(skip)], timeout=RUN_TIMEOUT)
            timeouts += 1 if r.timed_out else 0
            evs = [e for e in parse_events(r.stdout) if e.get("ev") in ("enc", "encinto", "dec", "deckey")][:len(ops) - skip]
            events += evs
            skip += len(evs)
            if skip >= len(ops):
                break
            # the driver process died (or hung) while executing op number `skip`
            why = "driver %s during op %d: %s" % ("timed out" if r.timed_out else "exit %s" % r.returncode, skip,
                                                  _trim(r.stderr, 400))
            crash = crash or why
            events.append(self._crash_event(ops[skip], why))
            skip += 1
            restarts += 1
        prog = case["prog"]
        for e in events:
            if e.get("ok") and "val" in e:
                e["val_raw"] = e["val"]
                e["val"] = normalise(prog, self._pkt_of(ops, e), e["val"])
        return {"build": {"ok": True, "log": log}, "events": events, "crash": crash}

    @staticmethod
    def _pkt_of(ops, ev):
        for op in ops:
            if op["id"] == ev.get("id") and op["op"] == ev.get("ev"):
                return op["pkt"]
        return ""

    @staticmethod
    def _crash_event(op, why):
        ev = {"ev": op["op"], "id": op["id"], "ok": False, "cls": "crash", "err": why}
        if op["op"] == "encinto":
            ev["pre"] = len(op.get("pre", []))
            ev["rd"] = int(op.get("rd", 0))
        elif op["op"] != "enc":
            ev["tail"] = len(op.get("tail", []))
            ev["consumed"] = -1
        return ev

    # -- emitted self-tests (C17) ------------------------------------------------------------------------
    def _run_tests(self, classes):
        cmd = ["java"] + JVM + ["-cp", os.pathsep.join([RT_DRV, RT_CLASSES, RT_JUNIT, classes]), "verif.TestRunner", classes]
        r = run(cmd, timeout=300)
        for line in r.stdout.splitlines():
            line = line.strip()
            if line.startswith("{"):
                try:
                    return json.loads(line), r
                except ValueError:
                    pass
        return None, r

    def _selftest(self, outdir, scratch):
        self.setup()
        os.makedirs(scratch, exist_ok=True)
        mains = _sources(os.path.join(outdir, "main", "java"))
        tests = _sources(os.path.join(outdir, "test", "java"))
        if not tests:
            return {"build_ok": False, "ran": 0, "passed": 0, "failed": 0, "log": "no test/java/**/*.java emitted"}
        classes = os.path.join(scratch, "st_classes")
        cp = [RT_CLASSES, RT_JUNIT]
        r = self._compile(mains + tests, classes, cp)
        build_ok = r.returncode == 0 and not r.timed_out
        log = ""
        unbuilt = 0
        if not build_ok:
            # one broken file must not hide the others: main alone, then every test file on its own
            log = _trim((r.stdout + r.stderr).replace(outdir, "<out>"), 1000) + "\n"
            r = self._compile(mains, classes, cp) if mains else None
            if r is None or r.returncode != 0:
                return {"build_ok": False, "ran": 0, "passed": 0, "failed": 0, "log": log[-1500:]}
            for t in tests:
                r = run(javac() + ["-d", classes, "-cp", os.pathsep.join(cp + [classes]), t], timeout=600)
                if r.returncode != 0:
                    unbuilt += 1
        res, r = self._run_tests(classes)
        if res is None:
            log += "test runner died: exit %s %s" % (r.returncode, _trim(r.stderr, 600))
            n = max(1, len(tests) - unbuilt)
            return {"build_ok": build_ok, "ran": n, "passed": 0, "failed": n, "log": log[-1500:]}
        for f in res.get("failures", []):
            log += "%s: %s\n" % (f.get("test"), f.get("err"))
        return {"build_ok": build_ok, "ran": res["ran"], "passed": res["passed"], "failed": res["failed"], "log": log[-1500:]}


PLUGIN = Java()
