"""setup_cmd: offline preparation after a fresh restore.  Parses every TLA+ module with SANY and
pre-builds fin-protoc (CLI + overlay driver) so that the first check does not pay for it."""
import os
import shutil
import sys
import tempfile

from common import SPEC, run, build_cli, build_driver, Infra


def sany():
    tmp = tempfile.mkdtemp(prefix="verif-sany-")
    bad = 0
    try:
        for f in sorted(os.listdir(SPEC)):
            if f.endswith(".tla"):
                shutil.copy(os.path.join(SPEC, f), tmp)
        for f in sorted(os.listdir(tmp)):
            r = run(["timeout", "120", "tla-sany", f], cwd=tmp, timeout=150)
            ok = r.returncode == 0 and "Semantic errors" not in r.stdout and "Parsing or semantic analysis failed" not in r.stdout
            print("SANY %-24s %s" % (f, "ok" if ok else "FAILED"))
            if not ok:
                bad += 1
                print(r.stdout[-1500:])
    finally:
        shutil.rmtree(tmp, ignore_errors=True)
    return 1 if bad else 0


def main():
    rc = sany()
    try:
        print("cli:", build_cli())
        print("driver:", build_driver())
    except Infra as e:
        print("setup: build failed:", e)
        return 1
    try:
        import langs
        langs.setup_all()
    except ImportError:
        pass
    return rc


if __name__ == "__main__":
    sys.exit(main())
