"""The codec family pipeline (C01-C07, C15, C17):
abstract programs (TLC TESTCASEs) -> DSL text -> real CLI -> emitted code -> target toolchains +
reference runtimes -> drivers execute the operation history -> ndjson trace -> TLC TraceCodec."""
import json
import os
import random

import dsl
import langs
import tlc
import wire_ref
from common import Infra, Scratch, build_cli, pmap, run, seed, sha, write

TAILS = [[], [0xEE], [0xFF, 0xFF, 0x00, 0x01]]
ALL_OUT = ["lua", "rust", "go", "java", "py", "cpp"]


def compile_prog(cli, prog, root, targets=ALL_OUT, text=None):
    """Render and compile with the real CLI.  -> dict(dsl, rc, out, dirs)"""
    text = text if text is not None else dsl.render(prog)
    os.makedirs(root, exist_ok=True)
    path = os.path.join(root, "p.dsl")
    write(path, text)
    args = [cli, "-f", path]
    dirs = {}
    for t in targets:
        dirs[t] = os.path.join(root, "out_" + t)
        args += [langs.FLAG[t], dirs[t]]
    r = run(args, timeout=240)
    return {"dsl": text, "rc": r.returncode, "out": (r.stdout + r.stderr)[-3000:], "dirs": dirs, "timed_out": r.timed_out,
            "panic": "panic:" in r.stderr or "fatal error:" in r.stderr}


def unknown_keys(prog):
    """[(match field, key bytes, a payload pkt)] for root-level match fields: two key values not in the table."""
    out = []
    r = dsl.root(prog)
    for f0 in r["fields"]:
        f = dsl.res(prog, f0)
        if f["k"] != "match":
            continue
        kf = dsl.res(prog, next(g for g in r["fields"] if g["name"] == f["key"]))
        keys = [list(k) for p in f["pairs"] for k in p["keys"]]
        cands = []
        if kf["k"] == "int":
            w = dsl.WIDTH[kf["ty"]]
            # a key that equals a table key once its upper half is cut off (a factory keyed by a narrower type
            # would take it for that table key), then plain absent values
            if w >= 2:
                for k in keys[:2]:
                    n = (int.from_bytes(bytes(k), "big") + (1 << (8 * (w // 2)))) % (1 << (8 * w))
                    b = list(n.to_bytes(w, "big"))
                    if b not in keys and b not in cands:
                        cands.append(b)
                        break
            for n in (0, 7, 250, 99):
                b = list(n.to_bytes(w, "big"))
                if b not in keys:
                    cands.append(b)
        else:
            nstr = 2
            if kf["k"] == "dyn" and keys:
                # a table key with the effective pad byte of FIXED strings stuck on its padded side: for a dynamic string
                # that is another value, hence absent from the table (a decoder that trims keys would find the table key)
                padb = {"0": 0x30, "nul": 0, "sp": 0x20}.get(prog["opts"].get("padchar", ""), 0x20)
                b = ([padb] + keys[0]) if prog["opts"].get("padleft") == "true" else (keys[0] + [padb])
                if b not in keys:
                    cands.append(b)
                    nstr = 3
            for s in (b"ZZ", b"q", b"A"):
                b = list(s)
                if kf["k"] == "fix":
                    b = b[:kf["n"]]
                if b not in keys and b not in cands:
                    cands.append(b)
        for b in cands[:(2 if kf["k"] == "int" else nstr)]:
            out.append((f["name"], b, f["pairs"][0]["pkt"]))
    return out


USED_BUFFERS = (([0xB1, 0xB2, 0xB3], 0), ([0xA1, 0xA2, 0xA3, 0xA4, 0xA5], 2))


def make_case(prog, tier, nmsgs):
    """-> (case dict for the drivers, list of message records)"""
    thorough = tier == "thorough"
    msgs = wire_ref.messages(prog, nmsgs, seed() * 7919 + 17, thorough)
    ops = []
    recs = []
    rootname = dsl.root(prog)["name"]
    for i, (label, m) in enumerate(msgs):
        mid = "m%d" % i
        try:
            ref = wire_ref.layout(prog, rootname, m)
        except wire_ref.OutOfDomain:
            continue
        recs.append({"id": mid, "label": label, "val": m, "ref": ref})
        ops.append({"op": "enc", "id": mid, "pkt": rootname, "val": m})
        # histories: the same message encoded into a USED buffer (WireMachine.tla: PreSet / ConsumeSome): one that already
        # holds bytes, and one of which a reader has consumed a part
        if i < 2 or thorough:
            for pre, rd in USED_BUFFERS:
                ops.append({"op": "encinto", "id": mid, "pkt": rootname, "val": m, "pre": pre, "rd": rd})
        tails = TAILS if (i < 2 or thorough) else [[0xEE]]
        for t in tails:
            ops.append({"op": "dec", "id": mid, "pkt": rootname, "bytes": ref, "tail": t})
    # histories: decode message i+1 into the object that just decoded message i (reused receiver)
    prev = None
    for rec in recs:
        if prev is not None:
            ops.append({"op": "dec", "id": rec["id"], "pkt": rootname, "bytes": rec["ref"], "tail": [0xEE], "reuse": True})
        prev = rec
    if len(recs) > 1:
        ops.append({"op": "dec", "id": recs[0]["id"], "pkt": rootname, "bytes": recs[0]["ref"], "tail": [0xEE], "reuse": True})
    keyrecs = []
    for j, (mf, kb, pk) in enumerate(unknown_keys(prog)):
        g = wire_ref.MsgGen(prog, random.Random(5), list_len=1, int_cls="pattern", str_idx=1, key=(mf, kb, pk))
        try:
            m = {"t": "o", "fs": g.fields(dsl.root(prog)["fields"])}
            b = wire_ref.layout(prog, rootname, m)
        except wire_ref.OutOfDomain:
            continue
        kid = "k%d" % j
        keyrecs.append({"id": kid, "key": kb, "bytes": b})
        ops.append({"op": "deckey", "id": kid, "pkt": rootname, "bytes": b, "tail": [0xEE]})
    return {"prog": prog, "ops": ops}, recs, keyrecs


def run_prog(cli, prog, tier, root, use_langs, nmsgs=0):
    comp = compile_prog(cli, prog, root)
    case, recs, keyrecs = make_case(prog, tier, nmsgs)
    res = {"prog": prog, "compile": comp, "msgs": recs, "keys": keyrecs, "sessions": {}}
    per_lang = {}
    if comp["rc"] != 0:
        # one generator that crashes or rejects must not mask the other targets: compile each requested target alone
        for l in use_langs:
            c1 = compile_prog(cli, prog, os.path.join(root, "solo_" + l), targets=[l], text=comp["dsl"])
            if c1["rc"] == 0:
                per_lang[l] = c1
        res["compile_solo"] = {l: c["rc"] for l, c in per_lang.items()}
        if not per_lang:
            return res
    for l in use_langs:
        plug = langs.get(l)
        if plug is None:
            continue
        if comp["rc"] != 0:
            if l not in per_lang:
                continue
            comp_l = per_lang[l]
        else:
            comp_l = comp
        sc = os.path.join(root, "scratch_" + l)
        os.makedirs(sc, exist_ok=True)
        if l == "lua":
            lcase = {"prog": prog, "ops": [{"op": "dissect", "id": r["id"], "bytes": r["ref"]} for r in recs]}
            res["sessions"][l] = plug.session(comp_l["dirs"][l], lcase, sc)
        else:
            res["sessions"][l] = plug.session(comp_l["dirs"][l], case, sc)
        res.setdefault("dirs", {})[l] = comp_l["dirs"][l]
    return res


def lua_trace_of(results):
    events, meta = [], []
    for res in results:
        prog = res["prog"]
        pid = prog.get("id", "?")
        s = res["sessions"].get("lua")
        if s is None or s.get("unsupported") or s.get("crash"):
            continue
        events.append({"ev": "load", "prog": {k: prog[k] for k in ("opts", "metas", "pkts")}})
        meta.append({"prog": pid})
        rootname = dsl.root(prog)["name"]
        byid = {e.get("id"): e for e in s["events"] if e.get("ev") == "dissect"}
        for rec in res["msgs"]:
            e = byid.get(rec["id"])
            if e is None:
                continue
            events.append({"ev": "msg", "id": rec["id"], "pkt": rootname, "val": rec["val"]})
            meta.append({"prog": pid, "msg": rec["label"]})
            adds = [{"kind": a.get("kind", "text"), "name": a.get("name") or "", "off": a.get("off", -1), "len": a.get("len", -1)} for a in e.get("adds", [])]
            events.append({"ev": "dissect", "ok": bool(e.get("ok")), "adds": adds})
            meta.append({"prog": pid, "msg": rec["label"], "lang": "lua", "err": e.get("err")})
    return events, meta


def trace_of(results, use_langs):
    """-> (events, meta) grouped program -> message -> language."""
    events, meta = [], []

    def ev(e, m):
        events.append(e)
        meta.append(m)
    for res in results:
        prog = res["prog"]
        pid = prog.get("id", "?")
        if not res["sessions"]:
            continue
        ev({"ev": "load", "prog": {k: prog[k] for k in ("opts", "metas", "pkts")}}, {"prog": pid})
        rootname = dsl.root(prog)["name"]
        byid = {l: {} for l in use_langs}
        for l, s in res["sessions"].items():
            if l not in byid:
                continue
            for e in s["events"]:
                byid[l].setdefault((e.get("ev"), e.get("id")), []).append(e)
        for rec in res["msgs"]:
            ev({"ev": "msg", "id": rec["id"], "pkt": rootname, "val": rec["val"]}, {"prog": pid, "msg": rec["label"]})
            ev({"ev": "ref", "bytes": rec["ref"]}, {"prog": pid, "msg": rec["label"]})
            for l in use_langs:
                if l not in res["sessions"]:
                    continue
                for e in byid[l].get(("enc", rec["id"]), []):
                    x = {"ev": "enc", "lang": l, "ok": bool(e.get("ok")), "bytes": e.get("bytes", []),
                         "calcs": e.get("calcs", []), "prims": e.get("prims", []), "cls": e.get("cls", "")}
                    ev(x, {"prog": pid, "msg": rec["label"], "lang": l, "err": e.get("err")})
                intos = byid[l].get(("encinto", rec["id"]), [])
                for e, (pre, rd) in zip(intos, USED_BUFFERS):
                    if e.get("pre") != len(pre) or e.get("rd") != rd:
                        raise Infra("%s driver: encinto event out of order for %s: %s" % (l, pid, {k: e.get(k) for k in ("id", "pre", "rd")}))
                    x = {"ev": "encinto", "lang": l, "ok": bool(e.get("ok")), "prebytes": pre, "rd": rd, "bytes": e.get("bytes", []),
                         "calcs": e.get("calcs", []), "prims": e.get("prims", []), "cls": e.get("cls", "")}
                    ev(x, {"prog": pid, "msg": rec["label"], "lang": l, "err": e.get("err"), "into": "pre%d-rd%d" % (len(pre), rd)})
                decs = byid[l].get(("dec", rec["id"]), [])
                for di, e in enumerate(decs):
                    x = {"ev": "dec", "lang": l, "ok": bool(e.get("ok")), "tail": e.get("tail", 0),
                         "val": e.get("val", {"t": "o", "fs": []}), "consumed": e.get("consumed", -1),
                         "reenc": e.get("reenc", [-1]), "cls": e.get("cls", "")}
                    # the last dec op of a message decodes into the object that decoded the previous message
                    reused = len(res["msgs"]) > 1 and len(decs) > 1 and di == len(decs) - 1
                    ev(x, {"prog": pid, "msg": rec["label"], "lang": l, "err": e.get("err") or e.get("reenc_err"), "reused": reused})
            ev({"ev": "agree"}, {"prog": pid, "msg": rec["label"]})
        for k in res["keys"]:
            for l in use_langs:
                if l not in res["sessions"]:
                    continue
                for e in byid[l].get(("deckey", k["id"]), []):
                    outcome = "error" if not e.get("ok") and e.get("cls") in ("decode-raises",) else ("ok" if e.get("ok") else (e.get("cls") or "crash"))
                    ev({"ev": "deckey", "lang": l, "outcome": outcome, "consumed": e.get("consumed", -1)},
                       {"prog": pid, "key": k["key"], "lang": l, "err": e.get("err")})
    return events, meta


def validate(events, meta, shards=8, module="TraceCodec"):
    """TLC TraceCodec over the events (sharded at program boundaries).  -> (list of TlcResult, verdicts)"""
    # split at load events
    groups, cur = [], []
    for e, m in zip(events, meta):
        if e["ev"] == "load" and cur:
            groups.append(cur)
            cur = []
        cur.append((e, m))
    if cur:
        groups.append(cur)
    # pack groups into shards of roughly equal size
    shards = max(1, min(shards, len(groups)))
    packs = [[] for _ in range(shards)]
    sizes = [0] * shards
    for g in sorted(groups, key=len, reverse=True):
        i = sizes.index(min(sizes))
        packs[i].extend(g)
        sizes[i] += len(g)
    cfg = "SPECIFICATION Spec\nPOSTCONDITION Accepted\nCHECK_DEADLOCK FALSE\n"

    def one(pack):
        text = "\n".join(json.dumps(e, sort_keys=True, separators=(",", ":")) for e, _ in pack) + "\n"
        r = tlc.run_tlc(module, cfg, workers=1, timeout=1800, extra_files={"trace.ndjson": text}, heap="3g")
        if r.timed_out or r.errors or r.rc != 0 or r.violated:
            raise Infra(module + " failed to run: rc=%s %s %s\n%s" % (r.rc, r.errors[:3], r.violated, r.out[-2500:]))
        if r.depth != len(pack) + 1:
            raise Infra("codec trace not fully consumed: depth %d, events %d" % (r.depth, len(pack)))
        vs = []
        for v in r.verdicts:
            v = dict(v)
            v["event"], v["meta"] = pack[v["i"] - 1]
            vs.append(v)
        return r, vs
    out = pmap(one, [p for p in packs if p], workers=shards)
    return [r for r, _ in out], [v for _, vs in out for v in vs]
