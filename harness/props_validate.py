"""C12: ill-formed DSL rejected at the right line; well-formed DSL accepted -- Validate.tla."""
import json
import os
import re

import dsl
import tlc
from common import Infra, Scratch, build_cli, pmap, run, write
from evidence import Report
from props_pipeline import FLAG, LANGS

KEYWORDS = {
    "dupPacket": ["duplicate packet"], "dupMeta": ["duplicate metadata", "duplicate meta"],
    "dupOption": ["already defined", "duplicate option"], "dupField": ["duplicate field"],
    "dupMatchKey": ["duplicate match key", "duplicate key"], "multiRoot": ["multiple root"],
    "unknownOption": ["not allowed in this context", "unknown option"],
    "illegalOptionValue": ["not allowed to be", "illegal value", "invalid value"],
    "lenofOutsideRoot": ["only be declared in the root", "outside root", "root packet"],
    "lenofTwice": ["duplicate lengthof", "duplicate length"],
    "undeclaredPacket": ["unknown packet", "undeclared packet", "undefined packet", "not defined", "unknown type"],
    "undeclaredKeyField": ["unknown match key", "undeclared key", "unknown key field", "key field", "match key"],
    "undeclaredLenTarget": ["unknown length", "length target", "lengthof target", "unknown field", "undeclared field", "target field"],
}


def classes_of(msg):
    m = msg.lower()
    out = [c for c, kws in KEYWORDS.items() if any(k in m for k in kws)]
    # generic words widen the match (lenient on purpose: re-wording a message is not an alarm)
    if "duplicate" in m and not out:
        out = ["dupPacket", "dupMeta", "dupOption", "dupField", "dupMatchKey", "lenofTwice"]
    if re.search(r"unknown|undeclared|undefined|not defined|not found|does not exist", m) and not out:
        out = ["undeclaredPacket", "undeclaredKeyField", "undeclaredLenTarget", "unknownOption"]
    return out or ["other"]


DIAG = re.compile(r"Syntax error at line (\d+), column (-?\d+): (.*)")
ANTLR = re.compile(r"\{(\d+) (\d+) ([^{}]*?)(?: <nil>| 0x[0-9a-f]+| \[@[^\]]*\])?\}")


def observe(cli, text, root):
    os.makedirs(root, exist_ok=True)
    p = os.path.join(root, "p.dsl")
    write(p, text)
    args = [cli, "-f", p]
    for l in LANGS:
        args += [FLAG[l], os.path.join(root, "out_" + l)]
    r = run(args, timeout=240)
    out = r.stdout + "\n" + r.stderr
    diags = [{"line": int(m.group(1)), "classes": classes_of(m.group(3)), "text": m.group(3)[:120]} for m in DIAG.finditer(out)]
    if "syntax errors found" in out:
        for m in ANTLR.finditer(out):
            diags.append({"line": int(m.group(1)), "classes": ["antlr"], "text": m.group(3)[:120]})
    nfiles = 0
    for l in LANGS:
        for _, _, fs in os.walk(os.path.join(root, "out_" + l)):
            nfiles += len(fs)
    panic = ("panic:" in out) or ("fatal error:" in out) or r.returncode == 2 and "goroutine" in out
    return {"exit": r.returncode, "panic": bool(panic), "hang": r.timed_out, "diags": diags, "files": nfiles, "out": out[-1500:]}


def expected_lines(site, sites):
    site = tuple(site)
    lines = [sites[site]]
    if site[0] == "pair":
        lines.append(sites[("field", site[1], site[2])])     # the match field's own line is acceptable too
    return lines


def check_c12(tier):
    rep = Report("C12", tier, "model_checking")
    thorough = tier == "thorough"
    cli = build_cli()
    g = tlc.run_tlc("Validate", "GenFaults.cfg", workers=1, timeout=900)
    tlc.require_ok(g, "Validate.tla (Agree / FaultDetected)")
    rep.tlc(g)
    cases = g.testcases
    if len(cases) < 40:
        raise Infra("GenFaults produced only %d cases" % len(cases))
    leads = [0, 3] if not thorough else [0, 1, 3, 7]
    jobs = []
    for ci, c in enumerate(cases):
        for lead in leads:
            jobs.append((ci, lead))
    with Scratch() as tmp:
        def one(job):
            ci, lead = job
            c = cases[ci]
            text, sites = dsl.render_lines(c["prog"], lead=lead)
            ob = observe(cli, text, os.path.join(tmp, "c%d_%d" % (ci, lead)))
            exp = [[d[0], expected_lines(d[1], sites)] for d in c["diags"]]
            # the renderer is not trusted: the line must mention the offending declaration's identifier
            return ci, lead, text, exp, ob
        results = pmap(one, jobs)
    events, meta = [], []
    for ci, lead, text, exp, ob in results:
        c = cases[ci]
        events.append({"ev": "case", "wellformed": c["fault"]["class"] == "none", "expect": exp})
        meta.append(None)
        events.append({"ev": "compile", "exit": ob["exit"], "panic": ob["panic"] or ob["hang"],
                       "diags": [{"line": d["line"], "classes": d["classes"]} for d in ob["diags"]], "files": ob["files"]})
        meta.append({"case": ci, "lead": lead, "text": text, "exp": exp, "ob": ob})
    text = "\n".join(json.dumps(e, sort_keys=True) for e in events) + "\n"
    cfg = "SPECIFICATION Spec\nPOSTCONDITION Accepted\nCHECK_DEADLOCK FALSE\n"
    r = tlc.run_tlc("TraceValidate", cfg, workers=1, timeout=900, extra_files={"trace.ndjson": text})
    if not r.ok or r.depth != len(events) + 1:
        raise Infra("TraceValidate failed: rc=%s %s %s depth=%s/%s\n%s" % (r.rc, r.errors[:3], r.violated, r.depth, len(events) + 1, r.out[-2000:]))
    rep.tlc(r, traces=len(jobs))
    failing = {}
    for v in r.verdicts:
        failing[v["i"]] = v["fails"]
    for i, (e, m) in enumerate(zip(events, meta), 1):
        if e["ev"] != "compile":
            continue
        c = cases[m["case"]]
        f = c["fault"]
        site = "/".join(str(x) for x in (c["diags"][0][1] if c["diags"] else ["-"]))
        base = "base%s|%s|%s" % (f["base"], f["class"], site if f["class"] != "none" else f.get("variant", "base"))
        fails = failing.get(i, [])
        if not fails:
            rep.case(base + "|ok", True)
            continue
        for fl in fails:
            sig = "%s|%s" % (base, fl["kind"])
            rep.case(sig, False, "%s at %s of base %s: %s (exit %s, diagnostics %s)" % (
                f["class"], site, f["base"], fl["kind"], m["ob"]["exit"], [(d["line"], d["text"][:60]) for d in m["ob"]["diags"]][:3]),
                {"dsl": m["text"], "expected": m["exp"], "observed": {k: m["ob"][k] for k in ("exit", "panic", "diags", "files")},
                 "cmd": "fin-protoc -f p.dsl -l o/l -r o/r -g o/g -j o/j -p o/p -c o/c"})
    rep.sample({"fault": cases[1]["fault"], "expected": cases[1]["diags"], "dsl": dsl.render(cases[1]["prog"])[:600]})
    rep.assumptions += ["message text -> offence class by keyword (lenient); columns ignored",
                        "accept side here covers the 3 bases; every generated codec program adds to it under C07"]
    return rep.finish("every (base, fault class, site) case TLC enumerates from Validate.tla (%d cases) x %d line shifts through the "
                      "real CLI with all six outputs; distinct = (base, class, site, outcome)" % (len(cases), len(leads)),
                      exhaustive=True, extra={"fault_cases": len(cases), "classes": sorted({c["fault"]["class"] for c in cases})})
