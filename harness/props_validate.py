"""C12: ill-formed DSL rejected at the right line; well-formed DSL accepted -- Validate.tla."""
import json
import os
import re

import dsl
import dsltok
import tlc
from common import Infra, Scratch, build_cli, build_driver, pmap, run, write
from evidence import Report
from props_pipeline import FLAG, LANGS

KEYWORDS = {
    "dupPacket": ["duplicate packet"], "dupMeta": ["duplicate metadata", "duplicate meta"],
    "dupOption": ["already defined", "duplicate option"], "dupField": ["duplicate field"],
    "dupMatchKey": ["duplicate match key", "duplicate key"], "multiRoot": ["multiple root"],
    "unknownOption": ["not allowed in this context", "unknown option"],
    "illegalOptionValue": ["not allowed to be", "illegal value", "invalid value"],
    "lenofOutsideRoot": ["only be declared in the root", "outside root", "root packet"],
    "lenofTwice": ["duplicate lengthof", "duplicate length"],
    "undeclaredPacket": ["unknown packet", "undeclared packet", "undefined packet", "not defined", "unknown type"],
    "undeclaredMeta": ["unknown metadata", "undeclared metadata", "metadata type", "unknown meta"],
    "lenofAfterTarget": ["must be declared before", "before its target", "after its target"],
    "undeclaredKeyField": ["unknown match key", "undeclared key", "unknown key field", "key field", "match key"],
    "undeclaredLenTarget": ["unknown length", "length target", "lengthof target", "unknown field", "undeclared field", "target field"],
}


def classes_of(msg):
    m = msg.lower()
    out = [c for c, kws in KEYWORDS.items() if any(k in m for k in kws)]
    # generic words widen the match (lenient on purpose: re-wording a message is not an alarm)
    if "duplicate" in m and not out:
        out = ["dupPacket", "dupMeta", "dupOption", "dupField", "dupMatchKey", "lenofTwice"]
    if re.search(r"unknown|undeclared|undefined|not defined|not found|does not exist", m) and not out:
        out = ["undeclaredPacket", "undeclaredKeyField", "undeclaredLenTarget", "unknownOption"]
    return out or ["other"]


DIAG = re.compile(r"Syntax error at line (\d+), column (-?\d+): (.*)")
ANTLR = re.compile(r"\{(\d+) (\d+) ([^{}]*?)(?: <nil>| 0x[0-9a-f]+| \[@[^\]]*\])?\}")


def observe(cli, text, root):
    os.makedirs(root, exist_ok=True)
    p = os.path.join(root, "p.dsl")
    write(p, text)
    args = [cli, "-f", p]
    for l in LANGS:
        args += [FLAG[l], os.path.join(root, "out_" + l)]
    r = run(args, timeout=240)
    out = r.stdout + "\n" + r.stderr
    diags = [{"line": int(m.group(1)), "classes": classes_of(m.group(3)), "text": m.group(3)[:120]} for m in DIAG.finditer(out)]
    if "syntax errors found" in out:
        for m in ANTLR.finditer(out):
            diags.append({"line": int(m.group(1)), "classes": ["antlr"], "text": m.group(3)[:120]})
    nfiles = 0
    for l in LANGS:
        for _, _, fs in os.walk(os.path.join(root, "out_" + l)):
            nfiles += len(fs)
    panic = ("panic:" in out) or ("fatal error:" in out) or r.returncode == 2 and "goroutine" in out
    return {"exit": r.returncode, "panic": bool(panic), "hang": r.timed_out, "diags": diags, "files": nfiles, "out": out[-1500:]}


def expected_lines(site, sites):
    site = tuple(site)
    lines = [sites[site]]
    if site[0] == "pair":
        lines.append(sites[("field", site[1], site[2])])     # the match field's own line is acceptable too
    return lines


def frontend_conformance(rep, tier):
    """Accept side of C12 over the whole DslGen vocabulary, and conformance of the model the front end builds with
    spec/Model.tla (TraceModel.tla).  A well-formed program that is rejected (diagnostic / panic) is a C12 case;
    a model that differs from ModelOf(prog) is NOT a verdict of any listed property by itself (the generators may
    not observe the difference): it is printed as a NOTE and counted in the evidence."""
    import props_codec
    drv = build_driver()
    if drv is None:
        rep.assumptions.append("front-end conformance skipped: the overlay driver does not build against this tree")
        return
    progs = props_codec.gen_programs(rep, tier)
    events, paths = [], []
    with Scratch() as tmp:
        for n, p in enumerate(progs):
            text, sites = dsl.render_lines(p)
            path = os.path.join(tmp, "p%d.dsl" % n)
            with open(path, "w") as fh:
                fh.write(text)
            paths.append(path)
            lines = {"pkts": [sites[("pkt", j)] for j in range(1, len(p["pkts"]) + 1)],
                     "metas": [sites[("meta", j)] for j in range(1, len(p.get("metas") or []) + 1)]}
            events.append({"ev": "model", "id": p["id"], "text": text, "lines": lines,
                           "prog": {"opts": p["opts"], "metas": p.get("metas") or [], "pkts": p["pkts"]}})
        # "well-formed" does not depend on the layout: the same programs written on as few lines as possible (several
        # declarations - a key field and its match field, two packets - share a line) must be accepted as well
        fpaths = []
        for n, e in enumerate(events):
            path = os.path.join(tmp, "p%d_few.dsl" % n)
            with open(path, "w") as fh:
                fh.write(dsltok.relayout(e["text"], "fewlines", 1))
            fpaths.append(path)
        r = run([drv, "models"], input="\n".join(paths + fpaths) + "\n", timeout=900)
    outs = [json.loads(l) for l in r.stdout.splitlines() if l.startswith("{")]
    if r.returncode != 0 or len(outs) != 2 * len(events):
        raise Infra("overlay driver 'models' failed: rc=%s, %d of %d answers\n%s" % (r.returncode, len(outs), 2 * len(events), r.stderr[-1500:]))
    for e, o in zip(events, outs[len(events):]):
        sig = "frontend|%s~fewlines" % e["id"]
        if o.get("panic") or o.get("err") or not o.get("ok") or "model" not in o:
            rep.case(sig + "|rejected", False,
                     "well-formed program %s written on few lines is not accepted by the front end: diagnostics %s panic %s err %s" % (
                         e["id"], [(d["line"], d["msg"][:70]) for d in (o.get("diags") or [])][:3], (o.get("panic") or "")[:100], o.get("err")),
                     {"dsl": dsltok.relayout(e["text"], "fewlines", 1), "observed": {k: o.get(k) for k in ("ok", "diags", "panic", "err")},
                      "how": "fin-protoc compile -f p.dsl -g out (or the overlay driver: verifdrv models < paths)"})
        else:
            rep.case(sig + "|accepted", True)
    outs = outs[:len(events)]
    trace = []
    for e, o in zip(events, outs):
        sig = "frontend|%s" % e["id"]
        if o.get("panic") or o.get("err") or not o.get("ok") or "model" not in o:
            rep.case(sig + "|rejected", False,
                     "well-formed program %s is not accepted by the front end: diagnostics %s panic %s err %s" % (
                         e["id"], [(d["line"], d["msg"][:70]) for d in (o.get("diags") or [])][:3], (o.get("panic") or "")[:100], o.get("err")),
                     {"dsl": e["text"], "observed": {k: o.get(k) for k in ("ok", "diags", "panic", "err")},
                      "how": "fin-protoc compile -f p.dsl -g out (or the overlay driver: verifdrv models < paths)"})
            continue
        rep.case(sig + "|accepted", True)
        trace.append({"ev": "model", "id": e["id"], "prog": e["prog"], "lines": e["lines"], "dump": o["model"]})
    if not trace:
        return
    text = "\n".join(json.dumps(e, sort_keys=True) for e in trace) + "\n"
    cfg = "SPECIFICATION Spec\nPOSTCONDITION Accepted\nCHECK_DEADLOCK FALSE\n"
    t = tlc.run_tlc("TraceModel", cfg, workers=1, timeout=1500, extra_files={"trace.ndjson": text})
    if not t.ok or t.depth != len(trace) + 1:
        raise Infra("TraceModel failed: rc=%s %s depth=%s/%s\n%s" % (t.rc, t.errors[:3], t.depth, len(trace) + 1, t.out[-1500:]))
    rep.tlc(t, traces=len(trace))
    notes = []
    for v in t.verdicts:
        notes.append({"program": v["id"], "differs": v["differs"]})
        print("NOTE: front-end model of %s differs from Model.tla in %s (not a verdict of C12)" % (v["id"], v["differs"]))
    rep.cov["frontend_model_conformance"] = {"programs": len(trace), "differing": len(notes), "examples": notes[:10]}


def check_c12(tier):
    rep = Report("C12", tier, "model_checking")
    thorough = tier == "thorough"
    cli = build_cli()
    g = tlc.run_tlc("Validate", "GenFaults.cfg", workers=1, timeout=900)
    tlc.require_ok(g, "Validate.tla (Agree / FaultDetected)")
    rep.tlc(g)
    cases = g.testcases
    if len(cases) < 40:
        raise Infra("GenFaults produced only %d cases" % len(cases))
    leads = [0, 3] if not thorough else [0, 1, 3, 7]
    jobs = []
    for ci, c in enumerate(cases):
        for lead in leads:
            jobs.append((ci, lead))
    with Scratch() as tmp:
        def one(job):
            ci, lead = job
            c = cases[ci]
            text, sites = dsl.render_lines(c["prog"], lead=lead)
            ob = observe(cli, text, os.path.join(tmp, "c%d_%d" % (ci, lead)))
            exp = [[d[0], expected_lines(d[1], sites)] for d in c["diags"]]
            # the renderer is not trusted: the line must mention the offending declaration's identifier
            return ci, lead, text, exp, ob
        results = pmap(one, jobs)
    events, meta = [], []
    for ci, lead, text, exp, ob in results:
        c = cases[ci]
        events.append({"ev": "case", "wellformed": c["fault"]["class"] == "none", "expect": exp})
        meta.append(None)
        events.append({"ev": "compile", "exit": ob["exit"], "panic": ob["panic"] or ob["hang"],
                       "diags": [{"line": d["line"], "classes": d["classes"]} for d in ob["diags"]], "files": ob["files"]})
        meta.append({"case": ci, "lead": lead, "text": text, "exp": exp, "ob": ob})
    text = "\n".join(json.dumps(e, sort_keys=True) for e in events) + "\n"
    cfg = "SPECIFICATION Spec\nPOSTCONDITION Accepted\nCHECK_DEADLOCK FALSE\n"
    r = tlc.run_tlc("TraceValidate", cfg, workers=1, timeout=900, extra_files={"trace.ndjson": text})
    if not r.ok or r.depth != len(events) + 1:
        raise Infra("TraceValidate failed: rc=%s %s %s depth=%s/%s\n%s" % (r.rc, r.errors[:3], r.violated, r.depth, len(events) + 1, r.out[-2000:]))
    rep.tlc(r, traces=len(jobs))
    failing = {}
    for v in r.verdicts:
        failing[v["i"]] = v["fails"]
    for i, (e, m) in enumerate(zip(events, meta), 1):
        if e["ev"] != "compile":
            continue
        c = cases[m["case"]]
        f = c["fault"]
        site = "/".join(str(x) for x in (c["diags"][0][1] if c["diags"] else ["-"]))
        base = "base%s|%s|%s" % (f["base"], f["class"], site if f["class"] != "none" else f.get("variant", "base"))
        fails = failing.get(i, [])
        if not fails:
            rep.case(base + "|ok", True)
            continue
        for fl in fails:
            sig = "%s|%s" % (base, fl["kind"])
            rep.case(sig, False, "%s at %s of base %s: %s (exit %s, diagnostics %s)" % (
                f["class"], site, f["base"], fl["kind"], m["ob"]["exit"], [(d["line"], d["text"][:60]) for d in m["ob"]["diags"]][:3]),
                {"dsl": m["text"], "expected": m["exp"], "observed": {k: m["ob"][k] for k in ("exit", "panic", "diags", "files")},
                 "cmd": "fin-protoc -f p.dsl -l o/l -r o/r -g o/g -j o/j -p o/p -c o/c"})
    frontend_conformance(rep, tier)
    rep.sample({"fault": cases[1]["fault"], "expected": cases[1]["diags"], "dsl": dsl.render(cases[1]["prog"])[:600]})
    rep.assumptions += ["message text -> offence class by keyword (lenient); columns ignored",
                        "accept side here covers the 3 bases; every generated codec program adds to it under C07"]
    return rep.finish("every (base, fault class, site) case TLC enumerates from Validate.tla (%d cases) x %d line shifts through the "
                      "real CLI with all six outputs; distinct = (base, class, site, outcome)" % (len(cases), len(leads)),
                      exhaustive=True, extra={"fault_cases": len(cases), "classes": sorted({c["fault"]["class"] for c in cases})})
