"""C09 (formatting changes layout only) and C10 (idempotent, layout-canonical) -- Format.tla / TraceFormat.tla."""
import json
import os

import docs
import dsltok
import tlc
from common import Infra, Scratch, build_cli, build_driver, pmap, run, seed, sha, write
from evidence import Report
from props_pipeline import FLAG, LANGS

C09_KINDS = {"comment-lost", "token-lost", "token-added", "order-or-count-changed", "output-does-not-parse", "digest-differ",
             "valid-rejected", "invalid-accepted", "text-changed-on-error", "panic"}
C10_KINDS = {"not-idempotent", "layout-dependent"}


class Fmt:
    """The library formatter through the overlay driver, batched."""

    def __init__(self, drv, tmp):
        self.drv, self.tmp, self.n = drv, tmp, 0
        self.cache = {}

    def many(self, texts):
        todo = [t for t in dict.fromkeys(texts) if t not in self.cache]
        paths = []
        for t in todo:
            self.n += 1
            p = os.path.join(self.tmp, "f%d.dsl" % self.n)
            write(p, t)
            paths.append(p)
        # shard over processes
        nsh = 12
        shards = [paths[i::nsh] for i in range(nsh)]
        tsh = [todo[i::nsh] for i in range(nsh)]

        def one(i):
            if not shards[i]:
                return []
            r = run([self.drv, "fmts"], input="\n".join(shards[i]) + "\n", timeout=600)
            outs = [json.loads(x) for x in r.stdout.splitlines() if x.strip()]
            # a panic that escapes recover() (e.g. stack overflow) kills the batch: fall back one by one
            if len(outs) != len(shards[i]):
                outs = []
                for p in shards[i]:
                    rr = run([self.drv, "fmt", p], timeout=60)
                    try:
                        outs.append(json.loads(rr.stdout))
                    except ValueError:
                        outs.append({"ok": False, "panic": "process died: " + rr.stderr[-200:]})
            return outs
        for i, outs in enumerate(pmap(one, range(nsh))):
            for t, o in zip(tsh[i], outs):
                self.cache[t] = o
        return [self.cache[t] for t in texts]

    def one(self, text):
        return self.many([text])[0]


def ems_of(text):
    return [{"c": t.type == "LINE_COMMENT", "x": t.text} for t in dsltok.tokenize(text) if t.type not in ("COMMA", "SEMICOLON")]


def compile_digest(cli, text, root):
    os.makedirs(root, exist_ok=True)
    p = os.path.join(root, "p.dsl")
    write(p, text)
    args = [cli, "-f", p]
    for l in LANGS:
        args += [FLAG[l], os.path.join(root, l)]
    r = run(args, timeout=240)
    if r.returncode != 0:
        return r.returncode, "rc%d" % r.returncode
    parts = []
    for l in LANGS:
        for dp, _, fs in os.walk(os.path.join(root, l)):
            for f in sorted(fs):
                fp = os.path.join(dp, f)
                parts.append(os.path.relpath(fp, root) + ":" + sha(open(fp, "rb").read()))
    return 0, sha("\n".join(sorted(parts)))


def gen_histories(rep):
    g = tlc.run_tlc("Format", "Format.cfg", workers=4, timeout=600)
    tlc.require_ok(g, "Format.tla")
    rep.tlc(g)
    hs = sorted({tuple(t["ops"]) for t in g.testcases}, key=lambda h: (len(h), h))
    if len(hs) < 50:
        raise Infra("Format.tla produced only %d histories" % len(hs))
    return hs


def build_events(cli, drv, tmp, thorough, rep):
    """Replay histories; -> events, meta."""
    fm = Fmt(drv, tmp)
    events, meta = [], []

    def ev(e, m):
        events.append(e)
        meta.append(m)
    hists = gen_histories(rep)
    sd = seed()
    ncomp = [0]

    def fmt_event(text, o):
        if o.get("panic"):
            return {"ev": "fmt", "ok": False, "panic": True, "text": sha(text), "ems": [], "parses": False}, text
        if o.get("ok"):
            out = o["result"]
            try:
                e = ems_of(out)
            except dsltok.LexError:
                e = [{"c": False, "x": "<unlexable>"}]
            return {"ev": "fmt", "ok": True, "panic": False, "text": sha(out), "ems": e, "parses": o.get("out_syntax_errors", 1) == 0}, out
        return {"ev": "fmt", "ok": False, "panic": False, "text": sha(text), "ems": [], "parses": False}, text

    def comp_event(text, tag):
        ncomp[0] += 1
        rc, d = compile_digest(cli, text, os.path.join(tmp, "comp%d" % ncomp[0]))
        return {"ev": "compile", "rc": rc, "digest": d}

    # ---- 1. base documents x every history of Format.tla --------------------------------------
    for name, text in docs.DOCS.items():
        compilable = name not in ("minimal", "comments")
        ev({"ev": "doc", "id": name, "text": sha(text), "ems": ems_of(text), "valid": True}, {"doc": name, "group": "hist"})
        if compilable:
            ev(comp_event(text, name), {"doc": name, "group": "hist", "hist": "orig", "dsl": text})
        use = hists if (thorough or name == "rich") else [h for h in hists if len(h) <= 2]
        # pre-format everything that will be needed (batch): compute lazily but cache
        for h in use:
            cur = text
            ev({"ev": "restart", "text": sha(text)}, {"doc": name, "group": "hist"})
            for op in h:
                if op == "Format":
                    o = fm.one(cur)
                    e, cur2 = fmt_event(cur, o)
                    ev(e, {"doc": name, "group": "hist", "hist": ";".join(h), "op": op, "dsl": cur})
                    cur = cur2
                elif op == "Compile":
                    if compilable:
                        ev(comp_event(cur, name), {"doc": name, "group": "hist", "hist": ";".join(h), "op": op, "dsl": cur})
                else:
                    cur = dsltok.relayout(cur, op, sd)
                    ev({"ev": "relayout", "k": op, "text": sha(cur), "ems": ems_of(cur)}, {"doc": name, "group": "hist", "hist": ";".join(h), "op": op})
    # ---- 2. a comment at every token boundary ----------------------------------------------------
    variants = []
    for name in ("rich", "second", "multiline"):
        text = docs.DOCS[name]
        toks = [t for t in dsltok.tokenize(text) if t.type != "LINE_COMMENT"]
        for i in range(len(toks) + 1):
            for placement in ("same", "own"):
                if i == 0 and placement == "same":
                    continue
                prev = toks[i - 1].type if i > 0 else "BOF"
                nxt = toks[i].type if i < len(toks) else "EOF"
                ctext = dsltok.insert_comment(text, i, placement, "c%d" % i)
                variants.append((name, i, placement, prev, nxt, ctext))
    lay = ["fewlines", "oneperline"] if not thorough else dsltok.LAYOUTS
    # batch: first formats
    first = fm.many([v[5] for v in variants])
    seconds = fm.many([o["result"] for o in first if o.get("ok")])
    relaid = {}
    for v in variants:
        for k in lay:
            relaid[(v[0], v[1], v[2], k)] = dsltok.relayout(v[5], k, sd)
    fm.many(list(relaid.values()))
    for v, o in zip(variants, first):
        name, i, placement, prev, nxt, ctext = v
        m = {"doc": name, "group": "cmt", "boundary": "%s>%s" % (prev, nxt), "placement": placement, "idx": i}
        ev({"ev": "doc", "id": "%s#%d%s" % (name, i, placement), "text": sha(ctext), "ems": ems_of(ctext), "valid": True}, dict(m))
        e, cur = fmt_event(ctext, o)
        ev(e, dict(m, op="Format", dsl=ctext))
        if e["ok"]:
            e2, _ = fmt_event(cur, fm.one(cur))
            ev(e2, dict(m, op="Format;Format", dsl=cur))
        for k in lay:
            rt = relaid[(name, i, placement, k)]
            ev({"ev": "restart", "text": sha(ctext)}, dict(m))
            ev({"ev": "relayout", "k": k, "text": sha(rt), "ems": ems_of(rt)}, dict(m, op=k))
            e3, _ = fmt_event(rt, fm.one(rt))
            ev(e3, dict(m, op=k + ";Format", dsl=rt))
    # ---- 3. syntactically invalid texts: one brace removed / truncated -----------------------------
    inval = []
    for name in ("rich", "second"):
        text = docs.DOCS[name]
        toks = [t for t in dsltok.tokenize(text) if t.type != "LINE_COMMENT"]
        braces = [t for t in toks if t.text in ("{", "}")]
        for b in braces:
            inval.append((name, "drop%s@%d" % (b.text, b.line), text[:b.pos] + " " + text[b.pos + 1:]))
        for frac in (3, 2):
            cut = toks[len(toks) // frac]
            inval.append((name, "truncate@%d" % cut.line, text[:cut.pos]))
        # lexically invalid: a character no token can start with, outside strings and comments
        for k, ch in enumerate("#$?~!"):
            at = toks[(k * 7 + 3) % len(toks)]
            inval.append((name, "badchar%s@%s" % (ch, at.type), text[:at.pos] + ch + " " + text[at.pos:]))
    outs = fm.many([x[2] for x in inval])
    for (name, mut, t), o in zip(inval, outs):
        try:
            e0 = ems_of(t)
        except dsltok.LexError:
            e0 = [{"c": False, "x": "<unlexable>"}]
        m = {"doc": name, "group": "invalid", "mut": mut}
        ev({"ev": "doc", "id": name + ":" + mut, "text": sha(t), "ems": e0, "valid": False}, dict(m))
        if o.get("ok") or o.get("panic"):
            e, _ = fmt_event(t, o)
        else:
            # library contract on error: returns the input text and an error
            e = {"ev": "fmt", "ok": False, "panic": False, "text": sha(t), "ems": [], "parses": False}
        ev(e, dict(m, op="FormatBad", dsl=t))
    return events, meta, len(hists)


def grammar_conformance(rep, drv, tmp, thorough):
    """Grammar.tla (recogniser transcribed from PacketDsl.g4) versus the real front ends: for every token-level
    mutation (truncate / drop / duplicate at every k-th token) and a few trailing-garbage texts, the formatter's
    and the compiler's parser must accept exactly what the grammar derives.  -> cases recorded into rep."""
    step = 1 if thorough else 3
    texts = []
    for name in ("rich", "second", "special", "minimal"):
        text = docs.DOCS[name]
        texts.append((name, "orig", text))
        toks = [t for t in dsltok.tokenize(text) if t.type != "LINE_COMMENT"]
        for k in range(0, len(toks), step):
            t = toks[k]
            texts.append((name, "truncate@%s" % t.type, text[:t.pos]))
            texts.append((name, "drop@%s" % t.type, text[:t.pos] + text[t.pos + len(t.text):]))
            texts.append((name, "dup@%s" % t.type, text[:t.pos] + t.text + " " + text[t.pos:]))
        texts.append((name, "trailing-brace", text + "}\n"))
        texts.append((name, "trailing-field", text + "u8 stray,\n"))
        texts.append((name, "leading-brace", "{ " + text))
        texts.append((name, "trailing-keyword", text + "packet\n"))
    fm = Fmt(drv, tmp)
    outs = fm.many([t for _, _, t in texts])
    events, meta = [], []
    for (name, mut, t), o in zip(texts, outs):
        try:
            types = [x.type for x in dsltok.tokenize(t) if x.type != "LINE_COMMENT"]
        except dsltok.LexError:
            continue
        if o.get("panic"):
            continue                # crashes are C11's
        events.append({"toks": types, "accepted": bool(o.get("ok"))})
        meta.append({"doc": name, "mut": mut, "dsl": t, "front": "format"})
    # the compiler's front end (ParseFile) on the same texts
    paths = []
    for i, (name, mut, t) in enumerate(texts):
        p = os.path.join(tmp, "g%d.dsl" % i)
        write(p, t)
        paths.append(p)

    def parse(p):
        r = run([drv, "seq", p, ""], timeout=60)
        try:
            return json.loads(r.stdout).get("parse", {})
        except ValueError:
            return {"panic": "driver died"}
    for (name, mut, t), po in zip(texts, pmap(parse, paths, workers=16)):
        try:
            types = [x.type for x in dsltok.tokenize(t) if x.type != "LINE_COMMENT"]
        except dsltok.LexError:
            continue
        if po.get("panic"):
            continue
        syntactically_ok = not (po.get("err") or "").startswith("syntax errors found")
        events.append({"toks": types, "accepted": syntactically_ok})
        meta.append({"doc": name, "mut": mut, "dsl": t, "front": "compile"})
    text = "\n".join(json.dumps(e, separators=(",", ":")) for e in events) + "\n"
    r = tlc.run_tlc("TraceGrammar", "SPECIFICATION Spec\nPOSTCONDITION Accepted\nCHECK_DEADLOCK FALSE\n", workers=1, timeout=1500,
                    extra_files={"trace.ndjson": text}, heap="4g")
    if not r.ok or r.depth != len(events) + 1:
        raise Infra("TraceGrammar failed: rc=%s %s depth=%s/%s\n%s" % (r.rc, r.errors[:3], r.depth, len(events) + 1, r.out[-1500:]))
    rep.tlc(r, traces=len(events))
    bad = {v["i"]: v for v in r.verdicts}
    for i, (e, m) in enumerate(zip(events, meta), 1):
        base = "%s|grammar|%s|%s" % (m["doc"], m["mut"], m["front"])
        v = bad.get(i)
        if not v:
            rep.case(base, True)
            continue
        kind = "parser-accepts-invalid" if v["parser"] else "parser-rejects-valid"
        rep.case(base + "|" + kind, False, "%s front end %s the text `%s` of document %s, Grammar.tla says %s" % (
            m["front"], "accepts" if v["parser"] else "rejects", m["mut"], m["doc"], "valid" if v["grammar"] else "invalid"),
            {"dsl": m["dsl"], "front": m["front"], "grammar_accepts": v["grammar"], "parser_accepts": v["parser"],
             "how": "overlay driver: fmt (parser.FormatPacketDsl) / seq (parser.ParseFile)"})
    rep.cov["grammar_conformance_texts"] = len(events)


def run_check(pid, tier):
    rep = Report(pid, tier, "model_checking")
    thorough = tier == "thorough"
    cli = build_cli()
    drv = build_driver()
    if drv is None:
        raise Infra("overlay driver unavailable (needed for the library formatter)")
    kinds = C09_KINDS if pid == "C09" else C10_KINDS
    with Scratch() as tmp:
        events, meta, nh = build_events(cli, drv, tmp, thorough, rep)
        if pid == "C09":
            grammar_conformance(rep, drv, tmp, thorough)
    text = "\n".join(json.dumps(e, sort_keys=True, separators=(",", ":")) for e in events) + "\n"
    cfg = "SPECIFICATION Spec\nPOSTCONDITION Accepted\nCHECK_DEADLOCK FALSE\n"
    r = tlc.run_tlc("TraceFormat", cfg, workers=1, timeout=1800, extra_files={"trace.ndjson": text}, heap="6g")
    if not r.ok or r.depth != len(events) + 1:
        raise Infra("TraceFormat failed: rc=%s %s %s depth=%s/%s\n%s" % (r.rc, r.errors[:3], r.violated, r.depth, len(events) + 1, r.out[-2000:]))
    rep.tlc(r, traces=sum(1 for e in events if e["ev"] in ("doc", "restart")))
    failing = {v["i"]: v["fails"] for v in r.verdicts}
    for i, (e, m) in enumerate(zip(events, meta), 1):
        if e["ev"] not in ("fmt", "compile", "relayout"):
            continue
        fails = failing.get(i, [])
        if any(f["kind"] == "harness-relayout-changed-ems" for f in fails):
            raise Infra("harness relayout changed the token stream: %s" % m)
        if e["ev"] == "relayout":
            continue
        if m["group"] == "cmt":
            base = "%s|cmt|%s|%s|%s" % (m["doc"], m["boundary"], m["placement"], m["op"] if pid == "C10" else m["op"].split(";")[-1])
        elif m["group"] == "invalid":
            base = "%s|invalid|%s" % (m["doc"], m["mut"])
        else:
            base = "%s|hist|%s" % (m["doc"], m.get("hist"))
        mine = [f for f in fails if f["kind"] in kinds]
        if not mine:
            rep.case(base, True)
        for f in mine:
            rep.case(base + "|" + f["kind"], False, "%s: %s after %s" % (base, f["kind"], m.get("op")),
                     {"dsl": m.get("dsl"), "op": m.get("op"), "history": m.get("hist"), "kind": f["kind"],
                      "how": "overlay driver `fmt` (parser.FormatPacketDsl) on the text; compile = fin-protoc with all six outputs"})
    rep.sample({"document": "rich + comment at boundary 5 (own line)", "history": "Format; Format; Relayout(fewlines); Format",
                "oracle": "ems preserved, output parses, idempotent, canonical text independent of layout"})
    rep.assumptions += ["the harness tokenizer (cross-checked against the ANTLR token stream by the check itself) defines ems",
                        "documents: 3 hand-written syntax-rich texts, a comment inserted at every token boundary (same line / own line)"]
    return rep.finish("all %d histories of Format.tla (length <= 3) over the base documents; a comment at every token boundary x 2 placements "
                      "x {Format, Format;Format, Relayout(k);Format}; brace-dropping / truncating mutations; distinct = (document, boundary "
                      "context (token type before>after), placement, operation, outcome)" % nh, exhaustive=True,
                      extra={"events": len(events)})


def check_c09(tier):
    _crosscheck_tokenizer()
    return run_check("C09", tier)


def check_c10(tier):
    _crosscheck_tokenizer()
    return run_check("C10", tier)


def _crosscheck_tokenizer():
    drv = build_driver()
    if drv is None:
        return
    with Scratch() as tmp:
        for name, text in docs.DOCS.items():
            for k in [None] + dsltok.LAYOUTS:
                t = text if k is None else dsltok.relayout(text, k, 3)
                p = os.path.join(tmp, "x.dsl")
                write(p, t)
                r = run([drv, "tokens", p], timeout=60)
                o = json.loads(r.stdout)
                mine = [(x.text, x.line) for x in dsltok.tokenize(t)]
                theirs = [(x["x"], x["l"]) for x in o["tokens"]]
                if mine != theirs:
                    raise Infra("harness tokenizer disagrees with ANTLR on %s/%s" % (name, k))
                if o["syntax_errors"]:
                    raise Infra("relayout %s of %s does not parse" % (k, name))
