"""Verdict bookkeeping: cell signatures, known findings, replay bundles, evidence files, exit codes."""
import json
import os
import sys
import time

from common import VERIF, EVIDENCE, REPLAYS, sha, seed

KNOWN = os.path.join(VERIF, "known_findings.jsonl")


def load_known():
    known, fixed = {}, []
    if os.path.exists(KNOWN):
        with open(KNOWN) as f:
            for line in f:
                line = line.strip()
                if not line or line.startswith("#"):
                    continue
                try:
                    o = json.loads(line)
                except ValueError:
                    continue
                if o.get("status") == "known":
                    known[(o["property"], o["signature"])] = o
                else:
                    fixed.append(o)
    return known, fixed


class Report:
    """Collects the cases one check run evaluated."""

    def __init__(self, pid, tier, level):
        self.pid = pid
        self.tier = tier if tier in ("quick", "thorough") else "quick"
        self.level = level
        self.t0 = time.time()
        self.cases = 0
        self.sigs_seen = set()       # every distinct signature exercised (pass or fail)
        self.failures = {}           # signature -> (what, replay payload)
        self.samples = []
        self.cov = {}
        self.assumptions = []
        self.notes = []
        self.known, _ = load_known()

    # -- recording ---------------------------------------------------------------------------
    def case(self, sig, ok, what="", replay=None, sample=None):
        """sig: stable cell signature (without the property id); ok: property held on this case."""
        self.cases += 1
        self.sigs_seen.add(sig)
        if not ok and sig not in self.failures:
            self.failures[sig] = (what, replay)
        if sample is not None and len(self.samples) < 6:
            self.samples.append(sample)

    def sample(self, s):
        if len(self.samples) < 8:
            self.samples.append(s)

    def tlc(self, res, traces=0):
        """Accumulate TLC statistics (model checking of the spec and/or trace validation)."""
        self.cov["states"] = self.cov.get("states", 0) + res.distinct
        self.cov["transitions"] = self.cov.get("transitions", 0) + res.generated
        self.cov["traces_validated_against_impl"] = self.cov.get("traces_validated_against_impl", 0) + traces
        self.cov.setdefault("tlc_runs", []).append({"cmd": res.cmd.split("tlc2.TLC")[-1].strip(), "generated": res.generated,
                                                    "distinct": res.distinct, "depth": res.depth, "wall_s": round(res.wall, 1)})

    # -- finishing ---------------------------------------------------------------------------
    def finish(self, rule, exhaustive=False, extra=None):
        viol = []
        knownhits = []
        for sig, (what, replay) in sorted(self.failures.items()):
            k = self.known.get((self.pid, sig))
            if k:
                knownhits.append((sig, k.get("what", what)))
                continue
            path = self._write_replay(sig, what, replay)
            viol.append((sig, what, path))
        if os.environ.get("VERIF_ACCEPT_KNOWN") == "1" and viol:
            # developer tool (`verif.py accept <id>`), never used by a registered command: record the current
            # unlisted failures as known findings after they have been reviewed
            with open(KNOWN, "a") as f:
                for sig, what, path in viol:
                    f.write(json.dumps({"property": self.pid, "signature": sig, "what": what, "status": "known"}) + "\n")
            print("accepted %d findings into %s" % (len(viol), KNOWN))
            knownhits += [(sig, what) for sig, what, _ in viol]
            viol = []
        for sig, what in knownhits:
            print("KNOWN-FINDING: property=%s %s [%s]" % (self.pid, what, sig))
        for sig, what, path in viol:
            print("VIOLATION property=%s replay=%s" % (self.pid, path))
            print("  signature: %s\n  what: %s" % (sig, what))
        cov = dict(self.cov)
        cov.update({
            "evaluations": max(self.cases, 1),
            "distinct_nontrivial": len(self.sigs_seen),
            "rule": rule,
            "samples": self.samples[:8] or [{"note": "no sample recorded"}],
            "exhaustive": bool(exhaustive),
            "known_findings_reproduced": [s for s, _ in knownhits],
            "failing_signatures": len(self.failures),
        })
        if self.level == "model_checking":
            cov.setdefault("states", 0)
            cov.setdefault("transitions", 0)
            cov.setdefault("traces_validated_against_impl", 0)
        if extra:
            cov.update(extra)
        ev = {
            "property_id": self.pid,
            "tier": self.tier,
            "seed": seed(),
            "level": self.level,
            "coverage": cov,
            "assumptions": self.assumptions,
            "wall_s": round(time.time() - self.t0, 2),
            "violations": len(viol),
        }
        if self.notes:
            ev["coverage"]["notes"] = self.notes
        os.makedirs(EVIDENCE, exist_ok=True)
        with open(os.path.join(EVIDENCE, self.pid + ".json"), "w") as f:
            json.dump(ev, f, indent=1, sort_keys=True, default=str)
        print("%s %s: %d cases, %d distinct cells, %d failing (%d known, %d new), %.1fs" % (
            self.pid, self.tier, self.cases, len(self.sigs_seen), len(self.failures), len(knownhits), len(viol),
            time.time() - self.t0))
        return 1 if viol else 0

    def _write_replay(self, sig, what, replay):
        d = os.path.join(REPLAYS, self.pid)
        os.makedirs(d, exist_ok=True)
        path = os.path.join(d, sha(sig)[:16] + ".json")
        body = {"property": self.pid, "signature": sig, "what": what, "tier": self.tier, "seed": seed(),
                "replay": replay,
                "rerun": "python3 harness/verif.py replay %s" % path}
        with open(path, "w") as f:
            json.dump(body, f, indent=1, default=str)
        return path


def infra_exit(pid, tier, level, msg):
    """Infrastructure failure: still leave an evidence file that says so, exit 2."""
    sys.stderr.write("INFRA property=%s %s\n" % (pid, msg))
    return 2
