// Overlay driver: compiled *virtually* inside /repo's module with `go build -overlay`, so it can
// import internal/parser and internal/model without any file being added to /repo.
// It only observes: it parses, runs generators in a prescribed order, formats, and prints digests.
package main

import (
	"bufio"
	"crypto/sha256"
	"encoding/base64"
	"encoding/hex"
	"encoding/json"
	"fmt"
	"os"
	"reflect"
	"sort"
	"strings"

	"github.com/antlr4-go/antlr/v4"
	"github.com/xinchentechnote/fin-protoc/internal/model"
	"github.com/xinchentechnote/fin-protoc/internal/parser"
)

var realStdout = os.Stdout

func quiet(f func()) {
	null, _ := os.OpenFile(os.DevNull, os.O_WRONLY, 0)
	os.Stdout = null
	defer func() { os.Stdout = realStdout; null.Close() }()
	f()
}

type genResult struct {
	Lang   string            `json:"lang"`
	Ok     bool              `json:"ok"`
	Panic  string            `json:"panic,omitempty"`
	Err    string            `json:"err,omitempty"`
	Files  map[string]string `json:"files"`           // name -> sha256
	Data   map[string]string `json:"data,omitempty"`  // name -> base64 (only when asked)
	Digest string            `json:"digest"`          // digest of the whole file map
	Model  string            `json:"model"`           // structural digest of the model *after* this generator
}

func runGen(l string, m *model.BinaryModel) (o map[string][]byte, err error, pan string) {
	defer func() {
		if r := recover(); r != nil {
			pan = fmt.Sprint(r)
		}
	}()
	quiet(func() {
		switch l {
		case "lua":
			o, err = parser.NewLuaWspGenerator(m).Generate(m)
		case "rust":
			o, err = parser.NewRustGenerator(m).Generate(m)
		case "go":
			o, err = parser.NewGoGenerator(m).Generate(m)
		case "java":
			o, err = parser.NewJavaGenerator(m).Generate(m)
		case "py":
			o, err = parser.NewPythonGenerator(m).Generate(m)
		case "cpp":
			o, err = parser.NewCppGenerator(m).Generate(m)
		default:
			err = fmt.Errorf("unknown lang %s", l)
		}
	})
	return
}

func digestFiles(o map[string][]byte) (map[string]string, string) {
	ks := make([]string, 0, len(o))
	for k := range o {
		ks = append(ks, k)
	}
	sort.Strings(ks)
	h := sha256.New()
	fs := map[string]string{}
	for _, k := range ks {
		s := sha256.Sum256(o[k])
		fs[k] = hex.EncodeToString(s[:])
		h.Write([]byte(k))
		h.Write([]byte{0})
		h.Write(s[:])
	}
	return fs, hex.EncodeToString(h.Sum(nil))
}

// structural digest of a model: deterministic walk, maps sorted, pointers followed once.
// Also collects the padding "cells": every distinct Padding object with the path it is first
// reached by and its current PadChar / PadLeft.
func modelWalk(m *model.BinaryModel) (string, map[string]string) {
	var b strings.Builder
	cells := map[string]string{}
	seen := map[uintptr]int{}
	var walk func(v reflect.Value, depth int, path string)
	walk = func(v reflect.Value, depth int, path string) {
		if depth > 60 {
			b.WriteString("<deep>")
			return
		}
		switch v.Kind() {
		case reflect.Ptr:
			if v.IsNil() {
				b.WriteString("nil")
				return
			}
			p := v.Pointer()
			if id, ok := seen[p]; ok {
				fmt.Fprintf(&b, "@%d", id)
				return
			}
			seen[p] = len(seen)
			b.WriteString("&")
			walk(v.Elem(), depth+1, path)
		case reflect.Interface:
			if v.IsNil() {
				b.WriteString("nil")
				return
			}
			b.WriteString(v.Elem().Type().String())
			walk(v.Elem(), depth+1, path)
		case reflect.Struct:
			if v.Type().Name() == "Padding" {
				pc := v.FieldByName("PadChar")
				pl := v.FieldByName("PadLeft")
				if pc.IsValid() && pl.IsValid() {
					cells[path] = fmt.Sprintf("%v|%v", pc.Interface(), pl.Interface())
				}
			}
			b.WriteString("{")
			for i := 0; i < v.NumField(); i++ {
				n := v.Type().Field(i).Name
				if n == "SyntaxErrors" || n == "OffendingSymbol" {
					continue
				}
				b.WriteString(n + ":")
				walk(v.Field(i), depth+1, path+"."+n)
				b.WriteString(";")
			}
			b.WriteString("}")
		case reflect.Map:
			keys := v.MapKeys()
			sort.Slice(keys, func(i, j int) bool { return fmt.Sprint(keys[i]) < fmt.Sprint(keys[j]) })
			b.WriteString("map[")
			for _, k := range keys {
				fmt.Fprintf(&b, "%v=", k)
				walk(v.MapIndex(k), depth+1, fmt.Sprintf("%s[%v]", path, k))
				b.WriteString(",")
			}
			b.WriteString("]")
		case reflect.Slice, reflect.Array:
			b.WriteString("[")
			for i := 0; i < v.Len(); i++ {
				walk(v.Index(i), depth+1, fmt.Sprintf("%s[%d]", path, i))
				b.WriteString(",")
			}
			b.WriteString("]")
		default:
			fmt.Fprintf(&b, "%#v", v.Interface())
		}
	}
	walk(reflect.ValueOf(m), 0, "M")
	s := sha256.Sum256([]byte(b.String()))
	return hex.EncodeToString(s[:]), cells
}

func modelDigest(m *model.BinaryModel) string {
	d, _ := modelWalk(m)
	return d
}

type parseOut struct {
	Ok     bool     `json:"ok"`
	Err    string   `json:"err,omitempty"`
	Panic  string   `json:"panic,omitempty"`
	Diags  []diag   `json:"diags"`
	Model  string   `json:"model,omitempty"`
	m      *model.BinaryModel
}
type diag struct {
	Line int    `json:"line"`
	Col  int    `json:"col"`
	Msg  string `json:"msg"`
}

func parse(path string) (po parseOut) {
	defer func() {
		if r := recover(); r != nil {
			po.Panic = fmt.Sprint(r)
			po.Ok = false
		}
	}()
	var r interface{}
	var err error
	quiet(func() { r, err = parser.ParseFile(path) })
	if err != nil {
		po.Err = err.Error()
		return
	}
	m, ok := r.(*model.BinaryModel)
	if !ok || m == nil {
		po.Err = "no model"
		return
	}
	po.m = m
	po.Ok = len(m.SyntaxErrors) == 0
	po.Diags = []diag{}
	for _, e := range m.SyntaxErrors {
		po.Diags = append(po.Diags, diag{e.Line, e.Column, e.Msg})
	}
	po.Model = modelDigest(m)
	return
}

func emit(v interface{}) {
	w := bufio.NewWriter(realStdout)
	enc := json.NewEncoder(w)
	enc.SetEscapeHTML(false)
	enc.Encode(v)
	w.Flush()
}

// seq <dsl> <lang,lang,...> [data] : one parse, generators in the given order over the same model
func cmdSeq(args []string) {
	po := parse(args[0])
	out := map[string]interface{}{"parse": po}
	if po.m == nil || !po.Ok {
		emit(out)
		return
	}
	withData := len(args) > 2 && args[2] == "data"
	res := []genResult{}
	if args[1] != "" {
		for _, l := range strings.Split(args[1], ",") {
			o, err, pan := runGen(l, po.m)
			g := genResult{Lang: l, Ok: err == nil && pan == "", Panic: pan}
			if err != nil {
				g.Err = err.Error()
			}
			g.Files, g.Digest = digestFiles(o)
			if withData {
				g.Data = map[string]string{}
				for k, v := range o {
					g.Data[k] = base64.StdEncoding.EncodeToString(v)
				}
			}
			g.Model = modelDigest(po.m)
			res = append(res, g)
		}
	}
	out["gens"] = res
	emit(out)
}

// seqs <dsl> : reads one comma-separated order per stdin line; prints one JSON line per order
// (fresh parse per order) with only lang/digest/model per step -- used for the 1957 orders of C14.
func cmdSeqs(args []string) {
	sc := bufio.NewScanner(os.Stdin)
	w := bufio.NewWriter(realStdout)
	defer w.Flush()
	for sc.Scan() {
		line := strings.TrimSpace(sc.Text())
		po := parse(args[0])
		type step struct {
			L string `json:"l"`
			D string `json:"d"`
			M string `json:"m"`
			P string `json:"p,omitempty"`
			C map[string]string `json:"c"`
			F map[string]string `json:"f"`
		}
		steps := []step{}
		m0 := po.Model
		var c0 map[string]string
		if po.m != nil {
			_, c0 = modelWalk(po.m)
		}
		if po.m != nil && po.Ok && line != "" {
			for _, l := range strings.Split(line, ",") {
				o, _, pan := runGen(l, po.m)
				fs, d := digestFiles(o)
				md, cells := modelWalk(po.m)
				steps = append(steps, step{l, d[:16], md[:16], pan, cells, fs})
			}
		}
		if len(m0) > 16 {
			m0 = m0[:16]
		}
		b, _ := json.Marshal(map[string]interface{}{"order": line, "m0": m0, "c0": c0, "ok": po.Ok, "steps": steps})
		w.Write(b)
		w.WriteString("\n")
	}
}

// rep <dsl> <lang> <K> : K fresh parse+generate repetitions in this process; distinct digests per file
func cmdRep(args []string) {
	var k int
	fmt.Sscan(args[2], &k)
	perFile := map[string]map[string]int{}
	whole := map[string]int{}
	sets := map[string]int{}
	var pan string
	for i := 0; i < k; i++ {
		po := parse(args[0])
		if po.m == nil || !po.Ok {
			emit(map[string]interface{}{"parse": po})
			return
		}
		o, _, p := runGen(args[1], po.m)
		if p != "" {
			pan = p
		}
		fs, d := digestFiles(o)
		whole[d]++
		names := make([]string, 0, len(fs))
		for n, h := range fs {
			names = append(names, n)
			if perFile[n] == nil {
				perFile[n] = map[string]int{}
			}
			perFile[n][h]++
		}
		sort.Strings(names)
		sets[strings.Join(names, ",")]++
	}
	// schedule witness: how many distinct iteration orders did a same-sized probe map show
	probe := map[string]int{"a": 1, "b": 2, "c": 3, "d": 4}
	orders := map[string]bool{}
	for i := 0; i < k; i++ {
		s := ""
		for x := range probe {
			s += x
		}
		orders[s] = true
	}
	emit(map[string]interface{}{"lang": args[1], "k": k, "whole": whole, "perfile": perFile, "filesets": sets,
		"probe_orders": len(orders), "panic": pan})
}

// fmt <file> : the library formatter on the file's content
func cmdFmt(args []string) {
	data, err := os.ReadFile(args[0])
	if err != nil {
		emit(map[string]interface{}{"ok": false, "ioerr": err.Error()})
		return
	}
	out := map[string]interface{}{}
	func() {
		defer func() {
			if r := recover(); r != nil {
				out["panic"] = fmt.Sprint(r)
				out["ok"] = false
			}
		}()
		var res string
		var e error
		quiet(func() { res, e = parser.FormatPacketDsl(string(data)) })
		if e != nil {
			out["ok"] = false
			out["err"] = e.Error()
		} else {
			out["ok"] = true
			out["result"] = res
			// does the output parse?
			p, _, _ := parser.NewPacketDslParserByContent(res)
			lst := parser.NewSyntaxErrorListener()
			p.RemoveErrorListeners()
			p.AddErrorListener(lst)
			quiet(func() { p.Packet() })
			out["out_syntax_errors"] = len(lst.Errors)
		}
	}()
	emit(out)
}

// fmts : one file path per stdin line; one JSON line per path (same content as fmt)
func cmdFmts() {
	sc := bufio.NewScanner(os.Stdin)
	for sc.Scan() {
		cmdFmt([]string{strings.TrimSpace(sc.Text())})
	}
}

// tokens <file> : the ANTLR token stream (all channels), for cross-checking the harness tokenizer
func cmdTokens(args []string) {
	data, err := os.ReadFile(args[0])
	if err != nil {
		emit(map[string]interface{}{"ok": false})
		return
	}
	type tok struct {
		T  int    `json:"t"`
		X  string `json:"x"`
		L  int    `json:"l"`
		Ch int    `json:"ch"`
	}
	toks := []tok{}
	nerr := 0
	func() {
		defer func() { recover() }()
		p, stream, _ := parser.NewPacketDslParserByContent(string(data))
		lst := parser.NewSyntaxErrorListener()
		p.RemoveErrorListeners()
		p.AddErrorListener(lst)
		if lx, ok := stream.GetTokenSource().(antlr.Lexer); ok {
			lx.RemoveErrorListeners()
			lx.AddErrorListener(lst)
		}
		quiet(func() { p.Packet() })
		nerr = len(lst.Errors)
		for _, t := range stream.GetAllTokens() {
			if t.GetTokenType() == antlr.TokenEOF {
				continue
			}
			toks = append(toks, tok{t.GetTokenType(), t.GetText(), t.GetLine(), t.GetChannel()})
		}
	}()
	emit(map[string]interface{}{"ok": true, "tokens": toks, "syntax_errors": nerr})
}

// ---------------------------------------------------------------------------------------------
// models : one DSL path per stdin line -> one JSON line with the PROJECTION of the BinaryModel that
// spec/Model.tla defines (ModelOf): configuration, MetaData map, packets in order, every field with its
// resolved attribute.  Pointers are followed and reported by NAME, so aliasing is not visible here
// (the structural digest of seq/seqs sees that).
type fieldP struct {
	Name  string      `json:"name"`
	Kind  string      `json:"kind"`
	Ty    string      `json:"ty"`
	Rep   bool        `json:"rep"`
	N     int         `json:"n"`
	Pad   string      `json:"pad"`
	Pkt   string      `json:"pkt"`
	Fs    []fieldP    `json:"fs"`
	Key   string      `json:"key"`
	KeyTy string      `json:"keyty"`
	Pairs [][2]string `json:"pairs"`
	Tgt   string      `json:"tgt"`
	Alg   string      `json:"alg"`
	Len   string      `json:"len"`
	Doc   string      `json:"doc"`
	Tag   int         `json:"tag"`
	Line  int         `json:"line"`
}
type pktP struct {
	Name   string   `json:"name"`
	Root   bool     `json:"root"`
	LenFld string   `json:"lenfld"`
	Fields []fieldP `json:"fields"`
	Names  []string `json:"names"` // FieldMap keys, sorted
	Match  []string `json:"match"` // MatchFields keys, sorted
	Line   int      `json:"line"`
}
type metaP struct {
	Name string `json:"name"`
	Kind string `json:"kind"`
	Ty   string `json:"ty"`
	N    int    `json:"n"`
	Pad  string `json:"pad"`
	Desc string `json:"desc"`
	Line int    `json:"line"`
}

func padText(p *model.Padding) string {
	if p == nil {
		return "nil"
	}
	side := "R"
	if p.PadLeft {
		side = "L"
	}
	return side + strings.ReplaceAll(p.PadChar, "\x00", "<NUL>")
}

func attrP(a model.FieldAttribute, f *fieldP) {
	switch c := a.(type) {
	case nil:
		f.Kind = "nil"
	case *model.BasicFieldAttribute:
		f.Kind, f.Ty = "basic", c.GetType()
	case *model.FixedStringFieldAttribute:
		f.Kind, f.Ty, f.N, f.Pad = "fix", "string", c.Length, padText(c.Padding)
	case *model.DynamicStringFieldAttribute:
		f.Kind, f.Ty = "dyn", "string"
	case *model.ObjectFieldAttribute:
		f.Kind, f.Pkt = "obj", c.PacketName
		if c.IsIner {
			f.Kind = "inl"
		}
		if c.RefPacket == nil {
			f.Ty = "?"
		} else {
			f.Ty = c.RefPacket.Name
			if c.IsIner {
				f.Fs = fieldsP(c.RefPacket.Fields)
			}
		}
	case *model.MatchFieldAttribute:
		f.Kind = "match"
		if c.MatchKeyField != nil {
			f.Key = c.MatchKeyField.Name
			if c.MatchKeyField.Attr != nil {
				f.KeyTy = c.MatchKeyField.GetType()
			}
		}
		for _, p := range c.MatchPairs {
			f.Pairs = append(f.Pairs, [2]string{p.Key, p.Value})
		}
	case *model.LengthFieldAttribute:
		f.Kind, f.Ty = "len", c.GetType()
		if c.TragetField != nil {
			f.Tgt = c.TragetField.Name
		}
	case *model.CheckSumFieldAttribute:
		f.Kind, f.Ty, f.Alg = "ck", c.GetType(), c.CheckSumType
	default:
		f.Kind = fmt.Sprintf("%T", a)
	}
}

func fieldsP(fs []*model.Field) []fieldP {
	out := []fieldP{}
	for _, x := range fs {
		f := fieldP{Name: x.Name, Rep: x.IsRepeat, Doc: x.Doc, Tag: x.Tag, Line: x.Line, Fs: []fieldP{}, Pairs: [][2]string{}, Pad: "-"}
		attrP(x.Attr, &f)
		switch l := x.LenAttr.(type) {
		case nil:
			f.Len = ""
		case *model.LengthOfAttribute:
			f.Len = "is-length-field"
		case *model.LengthFieldAttribute:
			f.Len = "measured"
			_ = l
		default:
			f.Len = fmt.Sprintf("%T", x.LenAttr)
		}
		out = append(out, f)
	}
	return out
}

func modelP(m *model.BinaryModel) map[string]interface{} {
	cfg := map[string]interface{}{}
	if m.Config != nil {
		cfg["ap"], cfg["sp"], cfg["le"] = m.Config.ListLenPrefixLenType, m.Config.StringLenPrefixLenType, m.Config.LittleEndian
		cfg["javapkg"], cfg["gopkg"], cfg["gomod"] = m.Config.JavaPackage, m.Config.GoPackage, m.Config.GoModule
		cfg["pad"] = padText(m.Config.Padding)
	}
	metas := []metaP{}
	for _, k := range sortedKeys(reflect.ValueOf(m.MetaDataMap)) {
		e := m.MetaDataMap[k]
		f := fieldP{Pad: "-"}
		attrP(e.Attr, &f)
		metas = append(metas, metaP{e.Name, f.Kind, f.Ty, f.N, f.Pad, e.Description, e.Line})
	}
	pkts := []pktP{}
	for _, p := range m.Packets {
		pp := pktP{Name: p.Name, Root: p.IsRoot, Fields: fieldsP(p.Fields), Line: p.Line,
			Names: sortedKeys(reflect.ValueOf(p.FieldMap)), Match: sortedKeys(reflect.ValueOf(p.MatchFields))}
		if p.LengthField != nil {
			pp.LenFld = p.LengthField.Name
		}
		pkts = append(pkts, pp)
	}
	root := ""
	if m.RootPacket != nil {
		root = m.RootPacket.Name
	}
	return map[string]interface{}{"config": cfg, "metas": metas, "pkts": pkts, "root": root,
		"pktnames": sortedKeys(reflect.ValueOf(m.PacketsMap)), "options": m.Options}
}

func sortedKeys(v reflect.Value) []string {
	out := []string{}
	if v.Kind() != reflect.Map {
		return out
	}
	for _, k := range v.MapKeys() {
		out = append(out, k.String())
	}
	sort.Strings(out)
	return out
}

func cmdModels() {
	sc := bufio.NewScanner(os.Stdin)
	for sc.Scan() {
		path := strings.TrimSpace(sc.Text())
		po := parse(path)
		out := map[string]interface{}{"path": path, "ok": po.Ok, "err": po.Err, "panic": po.Panic, "diags": po.Diags}
		if po.m != nil && po.Panic == "" {
			func() {
				defer func() {
					if r := recover(); r != nil {
						out["panic"] = "projection: " + fmt.Sprint(r)
					}
				}()
				out["model"] = modelP(po.m)
			}()
		}
		emit(out)
	}
}

func main() {
	if len(os.Args) < 2 {
		os.Exit(64)
	}
	switch os.Args[1] {
	case "seq":
		cmdSeq(os.Args[2:])
	case "seqs":
		cmdSeqs(os.Args[2:])
	case "rep":
		cmdRep(os.Args[2:])
	case "fmt":
		cmdFmt(os.Args[2:])
	case "fmts":
		cmdFmts()
	case "tokens":
		cmdTokens(os.Args[2:])
	case "models":
		cmdModels()
	default:
		os.Exit(64)
	}
}
